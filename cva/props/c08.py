"""C08 — descriptive statistics equal their textbook definitions.

D1 Bessel: the final divisor of the sample statistics derives from count - 1, that of the population statistics from count.
D2 homogeneity (E-SYM): mean X; var X^2; std X; covariances X*Y; min/max X.
D3 first-occurrence: argmin/argmax replace the running extremum only on a strict comparison.
D4 wiring: min -> f64::min, max -> f64::max; Vector/Matrix statistics methods delegate to the free function of the same name;
   mean = sum/len of the same slice.
D6 centring: every covariance/variance estimator takes deviations from the sample mean, or from a fixed element together with the
   (sum dx)(sum dy)/n correction.
D7 online co-moment update: in c += dx*dy (and Welford's m2 += d*d2) exactly one factor is formed before and one after the
   update of its running mean (sibling of Welford's update).
Not decided: rounding/stability, hist_bin_centers on non-uniform edges, Welford's coefficients beyond D2/D7."""
import re
from ..ir import tag, show, short, subterms, is_f64_method, f64_method_name
from ..elem import ElemEngine, show_expr, has_top, top_reasons
from ..sym import SymInfer, Ty, unit, d_mul
from ..poly import poly, psub, pconst, peq
from ..framework import site_of

LEVEL = 'other'
EXPLANATION = (
    'Closed forms of the statistics are extracted from MIR by the element abstraction (loops as accumulators, iterator chains, Welford '
    'aggregates) and checked by: the Bessel divisor rule on the final division, scale-type inference (mean X, var X^2, cov XY), the centring '
    'rule (deviations from the mean or shifted data with the correction term), the order of factor formation relative to the running-mean '
    'update in online co-moment recurrences (statement positions in the CFG), strictness of the argmin/argmax replacement test and '
    'delegation wiring. Rounding behaviour is numerical and not decided.')

ST = 'statistics::'
X = frozenset([('sym', 'X')])
Y = frozenset([('sym', 'Y')])


def every_sample_counted(prog, rep, keys):
    """In a moment / co-moment estimator every sample takes part: the accumulator updates inside the data loop may not be control
    dependent on a comparison of the data (a `continue` for samples that "change nothing" skips the count update too)."""
    n = 0
    for k in keys:
        f = prog.func(k)
        if f is None:
            continue
        bodies = [f] + [prog.func(b.key) for b in prog.pdb.closures_of(k)]
        for g in bodies:
            if g is None:
                continue
            for li in g.loop_info():
                accs = [st for st in g.stores() if st.bb in li['blocks'] and tag(st.target) == 'local' and st.target in subterms(st.value)]
                if not accs:
                    continue
                n += 1
                key = 'every-sample:%s' % short(g.body.key)
                bad = []
                for st in accs:
                    for c in g.control_conds(st.bb):
                        if tag(c) == 'bin' and len(c) > 4 and c[4] in ('f64', 'f32') and c[1] in ('Eq', 'Ne', 'Lt', 'Le', 'Gt', 'Ge'):
                            bad.append((st, c))
                if bad:
                    st, c = bad[0]
                    rep.viol('every-sample', key, 'the update %s := %s is skipped when %s decides so: samples for which the condition holds are not counted, '
                             'which corrupts every later update (n, the running means and the co-moment stay behind)' % (
                                 show(st.target), show(st.value)[:50], show(c)[:60]), site_of(st.span) or site_of(g.body))
                else:
                    rep.ok('every-sample', key, '%d accumulator updates execute on every iteration' % len(accs))
    return n


def run(prog, rep, tier, repo):
    pdb = prog.pdb
    eng = ElemEngine(prog)
    # ------------------------------------------------------------------ D0 every sample is counted
    every_sample_counted(prog, rep, sorted(k for k in pdb.bodies if pdb.bodies[k].kind != 'closure' and
                                          (k.startswith(ST + 'covariance::') or k.startswith(ST + 'moments::'))))
    # one-sample update helpers (aggregate, value) -> aggregate: every return site counts the sample (count + 1); a site that hands the
    # aggregate back unchanged "because the value changes nothing" drops it from the count, and every later mean and M2 with it
    for k_, b_ in sorted(pdb.bodies.items()):
        if not (k_.startswith(ST) and b_.kind != 'closure' and b_.arg_count == 2):
            continue
        t0_, t1_, t2_ = b_.local_ty(0), b_.local_ty(1).lstrip('&'), b_.local_ty(2).lstrip('&')
        if not (t0_ == t1_ and t0_.startswith('(usize') and t2_ == 'f64'):
            continue
        g_ = prog.func(k_)
        if g_ is None:
            continue
        rep.touch(k_)
        key = 'every-sample:%s:returns' % short(k_)
        agg_ = ('arg', 1, g_.names.get(1))
        bad_ = None
        unread_ = False
        for d_ in g_._defs.get(0, []):
            v_ = g_.rvalue_term(d_[3], d_[1]) if d_[0] == 'assign' else g_.call_term(d_[2], d_[1])
            if v_ == agg_:
                bad_ = (d_, 'the aggregate it was given')
                break
            if tag(v_) == 'agg' and v_[1] == 'tuple' and v_[3]:
                c0 = v_[3][0]
                inc = tag(c0) == 'bin' and c0[1] == 'Add' and {c0[2], c0[3]} >= {('const', 'usize', 1)} and \
                    any(tag(z) == 'field' and z[1] == agg_ and z[2] == 0 for z in (c0[2], c0[3]))
                if not inc and tag(c0) == 'local':
                    # `let (mut count, ..) = aggregate; count += 1;` -- a local initialised from the aggregate's count and incremented once on
                    # the way to this return
                    sts_ = [st for st in g_.stores() if st.target == c0]
                    ini_ = [st for st in sts_ if tag(st.value) == 'field' and st.value[1] == agg_ and st.value[2] == 0]
                    stp_ = [st for st in sts_ if st.value == ('bin', 'Add', c0, ('const', 'usize', 1), 'usize')]
                    if len(sts_) == 2 and len(ini_) == 1 and len(stp_) == 1 and g_.cfg.dominates(stp_[0].bb, d_[1]):
                        inc = True
                    elif len(sts_) >= 1 and len(ini_) == 1 and not any(g_.cfg.dominates(st.bb, d_[1]) for st in stp_):
                        bad_ = (d_, 'a count that is not incremented on this path')
                        break
                if not inc:
                    if tag(c0) == 'field' and c0[1] == agg_ and c0[2] == 0:
                        bad_ = (d_, 'a count that is not incremented')
                        break
                    unread_ = True
            else:
                unread_ = True
        if bad_:
            gs_ = [show(c)[:40] + (' is %s' % v) for c, v in g_.guards().get(bad_[0][1], []) if tag(c) == 'bin']
            rep.viol('every-sample', key, '%s returns %s when {%s}: that sample is not counted, so n and every later running mean and M2 are those of a '
                     'shorter data set' % (short(k_), bad_[1], '; '.join(gs_) or 'unconditionally'), site_of(g_.body))
        elif unread_:
            rep.undecided('every-sample', key, 'a return site of %s is not a tuple with count + 1' % short(k_), site_of(g_.body), proof=False)
        else:
            rep.ok('every-sample', key, 'every return site counts the sample')
    rep.floor('every-sample', 1, 'online covariance loop')
    # ------------------------------------------------------------------ D1 Bessel divisor
    table = [('moments::var', 0), ('moments::sample_var', 1), ('covariance::covariance', 0), ('covariance::sample_covariance', 1),
             ('covariance::sample_covariance_onepass', 1), ('covariance::sample_covariance_online', 1)]
    for name, minus in table:
        k = ST + name
        f = prog.func(k)
        key = 'bessel:%s' % short(k)
        if f is None:
            rep.viol('bessel', key, 'function disappeared')
            continue
        rep.touch(k)
        rets = f.return_values()
        if len(rets) != 1 or not (tag(rets[0]) == 'bin' and rets[0][1] == 'Div'):
            rep.undecided('bessel', key, 'result is not a single final division: %s' % [show(r)[:80] for r in rets], site_of(f.body))
            continue
        den = rets[0][3]
        off = _count_offset(f, den)
        if off is None:
            rep.undecided('bessel', key, 'divisor %s is not count - c' % show(den)[:80], site_of(f.body))
        elif off == minus:
            rep.ok('bessel', key, '%s divides by count%s' % (short(k), ' - 1' if minus else ''))
        else:
            rep.viol('bessel', key, '%s divides by count%s but a %s statistic divides by count%s' % (
                short(k), (' - %d' % off) if off else '', 'sample (unbiased)' if minus else 'population', ' - 1' if minus else ''), site_of(f.body))
    rep.floor('bessel', 6, 'var, sample_var, four covariances')

    # ------------------------------------------------------------------ D2 homogeneity
    ux, uy = unit('X', 1), unit('Y', 1)
    seeds = {('sym', 'X'): Ty(ux), ('sym', 'Y'): Ty(uy)}
    sq = unit('X', 2)
    xy = d_mul(ux, uy)
    table2 = [('moments::mean', ux), ('moments::welford_mean', ux), ('moments::var', sq), ('moments::sample_var', sq), ('moments::std', ux),
              ('moments::sample_std', ux), ('covariance::covariance', xy), ('covariance::sample_covariance', xy),
              ('covariance::sample_covariance_onepass', xy), ('covariance::sample_covariance_online', xy), ('order::min', ux), ('order::max', ux)]
    forms = {}
    for name, want in table2:
        k = ST + name
        key = 'homogeneity:%s' % short(k)
        if k not in pdb.bodies:
            rep.viol('homogeneity', key, 'function disappeared')
            continue
        rep.touch(k)
        ret, _ = eng.result_of(k, {1: X, 2: Y})
        forms[name] = ret
        if has_top(ret):
            rep.undecided('homogeneity', key, 'closed form not extracted: %s' % sorted(top_reasons(ret))[:2], proof=False)
            continue
        inf = SymInfer(seeds)
        t = inf.infer_set(ret)
        if inf.problems:
            rep.viol('homogeneity', key, '%s = %s is not homogeneous: %s' % (short(k), show_expr(ret)[:160], '; '.join(inf.problems)[:300]), site_of(pdb.bodies[k]))
        elif t is None:
            rep.undecided('homogeneity', key, 'type not inferred: %s' % inf.unknown[:2], proof=False)
        elif not t.poly and t.dim != want:
            rep.viol('homogeneity', key, '%s has scale type [%s], expected [%s]' % (short(k), t, Ty(want)), site_of(pdb.bodies[k]))
        else:
            rep.ok('homogeneity', key, '%s : [%s]' % (short(k), t))
            if len(rep.samples) < 10:
                rep.sample('%s = %s : [%s]' % (short(k), show_expr(ret)[:150], t))
    rep.floor('homogeneity', 10, 'moments, covariances, extrema')

    # ------------------------------------------------------------------ D6 centring
    mean_x, _ = eng.result_of(ST + 'moments::mean', {1: X})
    mean_y, _ = eng.result_of(ST + 'moments::mean', {1: Y})
    for name in ('covariance::covariance', 'covariance::sample_covariance', 'covariance::sample_covariance_onepass'):
        k = ST + name
        key = 'centring:%s' % short(k)
        ret = forms.get(name)
        if ret is None or has_top(ret) or len(ret) != 1:
            rep.undecided('centring', key, 'closed form not available', proof=False)
            continue
        e = next(iter(ret))
        status, why = _centring(e, mean_x, mean_y)
        if status == 'ok':
            rep.ok('centring', key, why)
        elif status == 'bad':
            rep.viol('centring', key, '%s: %s. Form: %s' % (short(k), why, show_expr(e)[:220]), site_of(pdb.bodies[k]))
        else:
            rep.undecided('centring', key, why, proof=False)
    rep.floor('centring', 3, 'two-pass and shifted covariance estimators')

    # ---- no second moment as a difference of raw moments.  sum(x*x)/n - mean^2 (or sum(x*y) - (sum x)(sum y)/n on unshifted data) equals the
    # central moment in exact arithmetic only: both terms are of the order mean^2 and their difference of the order of the variance, so
    # for data whose mean is large against its spread every digit cancels (negative variances, NaN standard deviations) and the result moves
    # when a constant is added to the data.  Decided on the closed form of every variance / covariance / standard-deviation routine.
    def _expr_iter(e_):
        if isinstance(e_, frozenset):
            for x_ in e_:
                yield from _expr_iter(x_)
        elif isinstance(e_, tuple):
            yield e_
            for x_ in e_[1:]:
                if isinstance(x_, (tuple, frozenset)):
                    yield from _expr_iter(x_)
    RAWS = (('sym', 'X'), ('sym', 'Y'))

    def _raw_square_sum(e_):
        # a reduction that accumulates products of raw data elements
        return any(z[0] == 'red' and any(q[0] == 'b' and q[1] == 'Mul' and q[2] in RAWS and q[3] in RAWS for q in _expr_iter(z[2])) for z in _expr_iter(e_) if len(z) > 2)

    def _raw_sum(e_):
        # a reduction that accumulates raw data elements themselves (a sum / mean of the data)
        return any(z[0] == 'red' and any(q[0] == 'b' and q[1] == 'Add' and (q[2] in RAWS or q[3] in RAWS) for q in _expr_iter(z[2])) for z in _expr_iter(e_) if len(z) > 2) or \
            any(z[0] == 'red' and z[1] == 'sum' and any(q in RAWS for q in z[2]) for z in _expr_iter(e_) if len(z) > 2)
    nraw = 0
    for name in ('moments::var', 'moments::sample_var', 'moments::std', 'moments::sample_std', 'covariance::covariance', 'covariance::sample_covariance',
                 'covariance::sample_covariance_onepass', 'covariance::sample_covariance_online'):
        k = ST + name
        if k not in pdb.bodies:
            continue
        nraw += 1
        key = 'raw-moment-difference:%s' % short(k)
        nargs = pdb.bodies[k].arg_count
        try:
            ret_, _ = eng.result_of(k, {1: X, 2: Y} if nargs >= 2 else {1: X})
        except Exception:
            ret_ = None
        if ret_ is None or isinstance(ret_, tuple) or has_top(ret_):
            rep.undecided('raw-moment-difference', key, 'closed form not available', proof=False)
            continue
        def _split_folds(e_):
            # component i of a fold over a tuple accumulator: keep only the update expressions that feed acc.i
            if isinstance(e_, frozenset):
                return frozenset(_split_folds(x_) for x_ in e_)
            if not isinstance(e_, tuple):
                return e_
            if e_ and e_[0] == 'fld' and isinstance(e_[1], tuple) and e_[1] and e_[1][0] == 'red' and isinstance(e_[2], int):
                sel = frozenset(q for q in e_[1][2] if any(w == ('fld', ('sym', 'acc'), e_[2]) for w in _expr_iter(q)))
                return ('red', e_[1][1], sel)
            return tuple(_split_folds(x_) if isinstance(x_, (tuple, frozenset)) else x_ for x_ in e_)
        ret_ = _split_folds(ret_)
        hit = None
        for z in _expr_iter(ret_):
            if z[0] == 'b' and z[1] == 'Sub' and _raw_square_sum(z[2]) and not _raw_square_sum(z[3]):
                mul = [q for q in _expr_iter(z[3]) if q[0] == 'b' and q[1] == 'Mul' and _raw_sum(q[2]) and _raw_sum(q[3])]
                if mul:
                    hit = z
                    break
        if hit is not None:
            rep.viol('raw-moment-difference', key, '%s computes %s: a raw second moment minus a product of raw first moments on unshifted data -- both terms are of the '
                     'order of the squared mean, their difference of the order of the variance, so data with a mean far above their spread lose every digit '
                     '(negative variance, NaN standard deviation; the value changes when a constant is added to the data)' % (short(k), show_expr(hit)[:160]),
                     site_of(pdb.bodies[k]))
        else:
            rep.ok('raw-moment-difference', key, 'no difference of raw moments in the closed form')
    rep.floor('raw-moment-difference', 6, 'variance / covariance / standard deviation routines')

    # ------------------------------------------------------------------ D7 co-moment update order
    for k in (ST + 'moments::welford_update', ST + 'covariance::sample_covariance_online'):
        f = prog.func(k)
        key = 'comoment-update:%s' % short(k)
        if f is None:
            rep.viol('comoment-update', key, 'function disappeared')
            continue
        rep.touch(k)
        res = _comoment(f)
        if res is None:
            rep.undecided('comoment-update', key, 'accumulate statement acc += d1*d2 with running means not recognised', site_of(f.body), proof=False)
        else:
            kinds, desc = res
            if sorted(kinds) == ['post', 'pre']:
                rep.ok('comoment-update', key, desc)
            else:
                rep.viol('comoment-update', key, 'the co-moment is accumulated as a product of two deviations that are both taken %s the running-mean update (%s): '
                         'the recurrence needs one deviation from the old mean and one from the updated mean, otherwise the result is biased and not '
                         'shift invariant' % ('before' if kinds == ['pre', 'pre'] else 'after', desc), site_of(f.body))
    rep.floor('comoment-update', 2, 'welford_update, sample_covariance_online')

    # ------------------------------------------------------------------ D3 strictness
    # whatever the loop idiom (fold closure, for loop, while loop): every store that replaces the running candidate is control dependent on
    # a comparison between a data element and the running extremum; that comparison must be strict in the improving direction
    for name, want in (('argmin', 'Lt'), ('argmax', 'Gt')):       # element `want` best
        k = ST + 'order::' + name
        key = 'first-occurrence:%s' % name
        f0 = prog.func(k)
        if f0 is None:
            rep.viol('first-occurrence', key, 'function disappeared')
            continue
        # the function, the helpers it delegates to (`argmax = try_argmax(..).unwrap_or(0)`) and all their closures
        reach = sorted(kk for kk in prog.closure(k) if kk in pdb.bodies)
        bodies = [f0] + [prog.func(kk) for kk in reach if kk != k]
        bodies += [prog.func(b.key) for kk, b in sorted(pdb.bodies.items()) if any(kk.startswith(r + '::{closure') for r in reach) and kk not in reach]
        verdicts = []
        for g in bodies:
            rep.touch(g.body.key)

            def is_elem(t):
                # a data element: x[i], an iterator item, a component of the closure's (index, element) argument
                if tag(t) == 'index' and tag(t[2]) != 'range':
                    return True
                if tag(t) == 'item':
                    return True
                if tag(t) == 'field' and (tag(t[1]) == 'item' or (tag(t[1]) == 'arg' and t[1][1] >= 3)):
                    return True
                if tag(t) == 'local' and g.names.get(t[1]) in ('v', 'j', 'x', 'val', 'value') and False:
                    return True
                return False
            for cn, v in {(c, vv) for gl in g.guards().values() for c, vv in gl}:
                if tag(cn) != 'bin' or len(cn) < 5 or cn[4] != 'f64' or cn[1] not in ('Lt', 'Le', 'Gt', 'Ge') or not isinstance(v, bool):
                    continue
                a, b = cn[2], cn[3]
                ea, eb = is_elem(a), is_elem(b)
                # single-def locals are inlined, so `let v = data[i]` shows up as the index read itself
                if ea == eb:
                    continue
                op = cn[1] if ea else {'Lt': 'Gt', 'Le': 'Ge', 'Gt': 'Lt', 'Ge': 'Le'}[cn[1]]      # element op best
                if v is False:
                    op = {'Lt': 'Ge', 'Le': 'Gt', 'Gt': 'Le', 'Ge': 'Lt'}[op]
                # does a replacement happen under it?  (a store to a multi-definition local / a tuple result in a block this edge dominates)
                blocks = [bb for bb, gl in g.guards().items() if (cn, v) in gl]
                def brings_new(t):
                    # the stored value contains the element / its index (an `else { acc }` arm stores the old accumulator back: no replacement)
                    return any(is_elem(z) or tag(z) == 'item' or (tag(z) == 'field' and tag(z[1]) == 'arg' and z[1][1] >= 3) for z in subterms(t))
                repl = [st for st in g.stores() if st.bb in blocks and (tag(st.target) == 'local' or tag(st.value) == 'agg') and brings_new(st.value)]
                if not repl:
                    continue
                verdicts.append((op, show(cn), v))
        if not verdicts:
            # std adaptors: Iterator::min_by / min_by_key return the FIRST of several equal minima, max_by / max_by_key the LAST of several
            # equal maxima (documented behaviour of core::iter): an index taken from max_by is the last occurrence
            adaptors = [short(c.path) for g in bodies for c in g.calls() if c.path and c.path.startswith('std::iter::Iterator::') and
                        short(c.path) in ('min_by', 'max_by', 'min_by_key', 'max_by_key')]
            rev = any(short(c.path) == 'rev' for g in bodies for c in g.calls() if c.path and c.path.startswith('std::iter::'))
            # the comparator must be the natural order of the elements (partial_cmp / total_cmp of first vs second argument); anything else
            # (reversed arguments, a key) is not read
            natural = True
            for g in bodies:
                for c in g.calls():
                    if c.path and c.path.startswith('std::iter::Iterator::') and short(c.path) in ('min_by', 'max_by') and len(c.args) == 2:
                        cl_ = c.args[1]
                        h_ = prog.func(cl_[2]) if tag(cl_) == 'agg' and cl_[1] == 'closure' else None
                        rv_ = h_.return_values() if h_ is not None else []
                        t_ = rv_[0] if len(rv_) == 1 else None
                        while t_ is not None and tag(t_) == 'call' and short(t_[1]) in ('unwrap', 'unwrap_or', 'expect') and t_[2]:
                            t_ = t_[2][0]
                        okc = t_ is not None and tag(t_) == 'call' and short(t_[1]) in ('partial_cmp', 'total_cmp') and len(t_[2]) == 2

                        def argno(z):
                            while tag(z) in ('field', 'deref'):
                                z = z[1]
                            return z[1] if tag(z) == 'arg' else None
                        if not (okc and argno(t_[2][0]) == 2 and argno(t_[2][1]) == 3):
                            natural = False
                    elif c.path and c.path.startswith('std::iter::Iterator::') and short(c.path) in ('min_by_key', 'max_by_key'):
                        natural = False
            if adaptors and not rev and natural:
                lastish = [a_ for a_ in adaptors if a_.startswith('max')]
                if lastish:
                    rep.viol('first-occurrence', key, '%s takes its index from Iterator::%s, which returns the last of several equal maxima: ties yield the last '
                             'occurrence, not the first' % (name, lastish[0]), site_of(f0.body))
                else:
                    rep.ok('first-occurrence', key, 'index from Iterator::%s, which returns the first of several equal minima' % adaptors[0])
                continue
            rep.undecided('first-occurrence', key, 'no replacement guarded by a comparison of an element with the running extremum recognised', site_of(f0.body), proof=False)
            continue
        bad = [vd for vd in verdicts if vd[0] != want]
        if bad:
            rep.viol('first-occurrence', key, '%s replaces its candidate when `%s` is %s, i.e. on element %s best: with a non-strict (or reversed) test the last of several '
                     'equal extrema is returned' % (name, bad[0][1], bad[0][2], {'Lt': '<', 'Le': '<=', 'Gt': '>', 'Ge': '>='}[bad[0][0]]), site_of(f0.body))
        else:
            rep.ok('first-occurrence', key, 'replaces only on the strict test %s: ties keep the first index' % verdicts[0][1])
    rep.floor('first-occurrence', 2, 'argmin, argmax')

    # ------------------------------------------------------------------ D3' the running extremum starts where every element can beat it
    # argmax must start at (or below) the smallest finite f64 / -inf / the first element, argmin at the largest / +inf / the first element:
    # any other constant hides every element on the wrong side of it (argmax seeded with MIN_POSITIVE returns 0 for all-negative data)
    import math
    for name, side in (('argmin', 'hi'), ('argmax', 'lo')):
        k = ST + 'order::' + name
        key = 'extreme-seed:%s' % name
        f0 = prog.func(k)
        if f0 is None:
            continue
        seeds = []
        for c in f0.calls():
            if c.path and short(c.path) == 'fold' and len(c.args) >= 2:
                init = c.args[1]
                comps = init[3] if tag(init) == 'agg' else (init,)
                seeds += [z for z in comps if tag(z) == 'const' and z[1] in ('f64', 'f32')]
        if not seeds:
            # loop form: constant initial definitions of f64 locals that are later replaced by elements
            for st in f0.stores():
                if tag(st.target) == 'local' and f0.body.local_ty(st.target[1]) in ('f64', 'f32') and tag(st.value) == 'const' and \
                        len([s2 for s2 in f0.stores() if s2.target == st.target]) > 1:
                    seeds.append(st.value)
        if not seeds:
            rep.undecided('extreme-seed', key, 'no constant initial extremum found (seeded with an element, or idiom not read)', site_of(f0.body), proof=False)
            continue
        bad = []
        for z in seeds:
            v = z[2]
            okv = (v == -math.inf or v == -1.7976931348623157e308) if side == 'lo' else (v == math.inf or v == 1.7976931348623157e308)
            if not okv and not (isinstance(v, float) and math.isnan(v)):
                bad.append(v)
        if bad:
            rep.viol('extreme-seed', key, '%s starts its running extremum at %r: elements %s that value can never replace it, so data lying entirely on that '
                     'side yields index 0 whatever the data' % (name, bad[0], 'below' if side == 'lo' else 'above'), site_of(f0.body))
        else:
            rep.ok('extreme-seed', key, 'running extremum starts at %s' % [z[2] for z in seeds])
    rep.floor('extreme-seed', 2, 'argmin, argmax')

    # ------------------------------------------------------------------ D4 wiring
    for name in ('min', 'max'):
        k = ST + 'order::' + name
        key = 'wiring:%s' % name
        ret = forms.get('order::' + name)
        want = frozenset([('red', 'fold', frozenset([('m', name, ('sym', 'acc'), ('sym', 'X')), ('c', float('nan'))]))])
        ok = ret is not None and len(ret) == 1 and _fold_of(next(iter(ret)), name)
        txt_ = show_expr(ret) if ret else ''
        other_ = 'max' if name == 'min' else 'min'
        if ok:
            rep.ok('wiring', key, '%s folds f64::%s over the elements' % (name, name))
        elif ret is None or ('.%s(' % other_) in txt_ or ('.%s(' % name) not in txt_:
            rep.viol('wiring', key, '%s is %s' % (name, txt_ or None), site_of(pdb.bodies.get(k)))
        else:
            rep.undecided('wiring', key, '%s uses f64::%s but not as a plain fold over the elements: %s' % (name, name, txt_[:100]), site_of(pdb.bodies.get(k)), proof=False)
    f = prog.func(ST + 'moments::mean')
    key = 'wiring:mean'
    if f is not None:
        d = ('arg', 1, f.names.get(1))
        rets = f.return_values()
        ok = len(rets) == 1 and rets[0] == ('bin', 'Div', ('call', 'linalg::utils::sum', (d,), None), ('cast', 'IntToFloat', ('len', d), 'f64', 'usize'), 'f64')
        # refuted in the read form only: sum(data) divided by something written in terms of data.len()
        read = len(rets) == 1 and tag(rets[0]) == 'bin' and rets[0][1] == 'Div' and rets[0][2] == ('call', 'linalg::utils::sum', (d,), None) \
            and any(z == ('len', d) for z in subterms(rets[0][3])) and not any(tag(z) == 'call' for z in subterms(rets[0][3]))
        if ok:
            rep.ok('wiring', key, 'mean(data) = sum(data) / data.len() as f64')
        elif read:
            rep.viol('wiring', key, 'mean is %s' % [show(r) for r in rets], site_of(f.body))
        else:
            rep.undecided('wiring', key, 'mean is not sum(data) / <expression in data.len()> (%s): not read' % [show(r)[:80] for r in rets], site_of(f.body), proof=False)
    for ty in ('linalg::array::vec::Vector', 'linalg::array::matrix::Matrix'):
        for m in ('max', 'mean', 'min', 'std', 'var', 'sample_std', 'sample_var'):
            k = '%s::%s' % (ty, m)
            key = 'wiring:%s::%s' % (short(ty), m)
            if k not in pdb.bodies:
                continue
            free = [kk for kk in pdb.bodies if kk.startswith(ST) and kk.endswith('::' + m) and pdb.bodies[kk].kind == 'fn']
            if not free:
                rep.undecided('wiring', key, 'free function %s not found' % m)
                continue
            a, _ = eng.result_of(k, {1: X})
            b, _ = eng.result_of(free[0], {1: X})
            rep.touch(k)
            fm = prog.func(k)
            rv = fm.return_values()
            named = len(rv) == 1 and tag(rv[0]) == 'call' and short(rv[0][1]) == m
            if a == b and not has_top(a) and named:
                rep.ok('wiring', key, '%s::%s == %s' % (short(ty), m, free[0]))
            elif a == b and not has_top(a) and not named:
                rep.viol('wiring', key, '%s::%s does not delegate to the function of its own name but to %s' % (short(ty), m, [show(r)[:80] for r in rv]), site_of(pdb.bodies[k]))
            elif has_top(a) or has_top(b):
                rep.undecided('wiring', key, 'not evaluated', proof=False)
            else:
                rep.viol('wiring', key, '%s::%s computes %s but %s computes %s' % (short(ty), m, show_expr(a)[:120], free[0], show_expr(b)[:120]), site_of(pdb.bodies[k]))
    rep.floor('wiring', 12, 'min/max/mean + delegating methods')
    for kk in eng.visited:
        rep.touch(kk)
    _merge_rule(prog, rep)
    # ---- every statistic sees every observation: a value filter inside a moment / order / covariance routine must keep every finite value
    from ..precond import check_data_filters
    check_data_filters(prog, rep, 'data-filter', sorted(k for k, b in pdb.bodies.items() if k.startswith(ST) and b.kind != 'closure'),
                       what='so the statistic is that of a subset of the data')
    rep.floor('data-filter', 1, 'scan of statistics::')
    return {}


def _fold_of(e, name):
    return e[0] == 'red' and e[1] in ('fold', 'acc') and any(x[0] == 'm' and x[1] == name and set(x[2:]) == {('sym', 'acc'), ('sym', 'X')} for x in e[2]) \
        and not any(x[0] == 'm' and x[1] != name for x in e[2])


def _count_offset(f, den):
    """den == (count - c) as f64  or a float counter n - c; returns c"""
    t = den
    if tag(t) == 'cast' and t[1] == 'IntToFloat':
        p = poly(t[2])
        c = p.get((), 0)
        rest = {m: v for m, v in p.items() if m != ()}
        if len(rest) == 1 and list(rest.values()) == [1]:
            atom = list(rest)[0][0]
            if tag(atom) == 'len' or (tag(atom) == 'field' and tag(atom[1]) == 'call' and short(atom[1][1]) == 'welford_statistics' and atom[2] == 0):
                return -c
        return None
    # float counter: local n incremented by 1.0 per element
    if tag(t) == 'local':
        if _is_float_counter(f, t):
            return 0
        return None
    if tag(t) == 'bin' and t[1] == 'Sub' and tag(t[2]) == 'local' and tag(t[3]) == 'const' and _is_float_counter(f, t[2]):
        return int(t[3][2]) if float(t[3][2]) == int(t[3][2]) else None
    return None


def _is_float_counter(f, loc):
    vals = [s.value for s in f.stores() if s.target == loc]
    inits = [v for v in vals if tag(v) == 'const' and v[2] == 0.0]
    incs = [v for v in vals if tag(v) == 'bin' and v[1] == 'Add' and v[2] == loc and tag(v[3]) == 'const' and v[3][2] == 1.0]
    return len(inits) == 1 and len(incs) == 1 and len(vals) == 2


def _centring(e, mean_x, mean_y):
    """e: closed form of a covariance estimator"""
    if not (e[0] == 'b' and e[1] == 'Div'):
        return 'und', 'not a quotient'
    num = e[2]
    mx = next(iter(mean_x)) if len(mean_x) == 1 else None
    my = next(iter(mean_y)) if len(mean_y) == 1 else None

    def product_terms(s):
        """the deviation pair of a sum{Mul(Sub(X, cx), Sub(Y, cy))}"""
        if s[0] == 'red' and s[1] in ('sum', 'acc'):
            for x in s[2]:
                y = x
                if y[0] == 'b' and y[1] == 'Add' and ('sym', 'acc') in (y[2], y[3]):
                    y = y[3] if y[2] == ('sym', 'acc') else y[2]
                if y[0] == 'b' and y[1] == 'Mul' and y[2][0] == 'b' and y[2][1] == 'Sub' and y[3][0] == 'b' and y[3][1] == 'Sub':
                    return y[2], y[3]
        return None
    # one factor centred, the other raw: sum (x - mx) * y.  Equal to the co-moment in exact arithmetic only (sum (x - mx) = 0); in floating
    # point the rounding residual of that sum is multiplied by mean(y), so the result moves when a constant is added to y
    if num[0] == 'red' and num[1] in ('sum', 'acc'):
        for x_ in num[2]:
            y_ = x_
            if y_[0] == 'b' and y_[1] == 'Add' and ('sym', 'acc') in (y_[2], y_[3]):
                y_ = y_[3] if y_[2] == ('sym', 'acc') else y_[2]
            if y_[0] == 'b' and y_[1] == 'Mul':
                for u, v in ((y_[2], y_[3]), (y_[3], y_[2])):
                    if u[0] == 'b' and u[1] == 'Sub' and u[2] in (('sym', 'X'), ('sym', 'Y')) and v in (('sym', 'X'), ('sym', 'Y')):
                        return 'bad', 'only one factor of the product is a deviation (%s) while the other is the raw series %s: the estimator is not shift ' \
                                      'invariant in that series (mean/sd of 1e8 turns 0.668 into 2.24)' % (show_expr(u), show_expr(v))
    pt = product_terms(num)
    if pt is not None:
        a, b = pt
        cx = a[3] if a[2] == ('sym', 'X') else None
        cy = b[3] if b[2] == ('sym', 'Y') else None
        if cx == mx and cy == my and mx is not None:
            return 'ok', 'deviations are taken from mean(x) and mean(y)'
        if cx == ('sym', 'X') or cy == ('sym', 'Y'):
            return 'bad', 'deviations are taken from a single data element (x[0], y[0]) without the (sum dx)(sum dy)/n correction: this is the covariance ' \
                          'only if the first observation happens to equal the mean'
        return 'und', 'centres %s / %s not recognised' % (show_expr(cx) if cx else None, show_expr(cy) if cy else None)
    # shifted form: sum dx dy - (sum dx)(sum dy)/n
    if num[0] == 'b' and num[1] == 'Sub':
        pt = product_terms(num[2])
        corr = num[3]
        if pt is None and num[2][0] == 'red' and num[2][1] in ('sum', 'acc'):
            for x_ in num[2][2]:
                y_ = x_
                if y_[0] == 'b' and y_[1] == 'Add' and ('sym', 'acc') in (y_[2], y_[3]):
                    y_ = y_[3] if y_[2] == ('sym', 'acc') else y_[2]
                if y_[0] == 'b' and y_[1] == 'Mul' and {y_[2], y_[3]} == {('sym', 'X'), ('sym', 'Y')}:
                    return 'bad', 'raw second moments: sum x*y - (sum x)(sum y)/n on unshifted data. The two terms are each of the order n*mean(x)*mean(y) ' \
                                  'and their difference of the order n*cov: with the mean far larger than the spread every significant digit cancels ' \
                                  '(the textbook unstable formula; the data must be shifted or centred first)'
        if pt is not None and corr[0] == 'b' and corr[1] == 'Div' and corr[2][0] == 'b' and corr[2][1] == 'Mul':
            sa, sb = corr[2][2], corr[2][3]

            def is_sum_of(s, dev):
                if s[0] == 'red' and s[1] in ('sum', 'acc'):
                    for x in s[2]:
                        y = x
                        if y[0] == 'b' and y[1] == 'Add' and ('sym', 'acc') in (y[2], y[3]):
                            y = y[3] if y[2] == ('sym', 'acc') else y[2]
                        if y == dev:
                            return True
                return False
            a, b = pt
            if (is_sum_of(sa, a) and is_sum_of(sb, b)) or (is_sum_of(sa, b) and is_sum_of(sb, a)):
                return 'ok', 'shifted data with the (sum dx)(sum dy)/n correction'
            return 'bad', 'the correction term is not (sum dx)(sum dy)/n over the same deviations'
    return 'und', 'estimator form not recognised'


def _comoment(f):
    """find acc := acc + a*b where a, b are deviations data - runningmean; classify each factor as formed before/after the
    update of the running mean it reads"""
    body = f.body
    # raw Mul statements of f64
    for bi in f.cfg.nodes:
        blk = body.blocks[bi]
        for si, st in enumerate(blk.stmts):
            if st.kind == 'assign' and st.rv.kind == 'bin' and st.rv.op == 'Mul' and st.rv.ty == 'f64':
                ops = [st.rv.a, st.rv.b]
                if not all(o.place is not None and o.place.is_local() for o in ops):
                    continue
                kinds = []
                descs = []
                for o in ops:
                    l = o.place.local
                    # follow copies
                    site = _def_site(f, l)
                    if site is None:
                        kinds = None
                        break
                    dbb, didx, dterm = site
                    means = [z for z in subterms(dterm) if tag(z) == 'local' and body.local_ty(z[1]) == 'f64']
                    if not (tag(dterm) == 'bin' and dterm[1] == 'Sub') or len(means) != 1:
                        kinds = None
                        break
                    m = means[0]
                    upd = [s for s in f.stores() if s.target == m and tag(s.value) == 'bin' and s.value[1] == 'Add' and m in (s.value[2], s.value[3])]
                    if len(upd) != 1:
                        kinds = None
                        break
                    u = upd[0]
                    before = _pos_before(f, (dbb, didx), (u.bb, u.idx))
                    kinds.append('pre' if before else 'post')
                    descs.append('%s formed %s the update of `%s`' % (show(dterm)[:40], 'before' if before else 'after', m[2] or '?'))
                if kinds is not None and len(kinds) == 2:
                    return kinds, '; '.join(descs)
    return None


def _def_site(f, l, depth=0):
    ds = f._defs.get(l, [])
    if len(ds) != 1 or depth > 4:
        return None
    d = ds[0]
    if d[0] == 'assign':
        rv = d[3]
        if rv.kind == 'use' and rv.a.place is not None and rv.a.place.is_local() and not f.is_arg(rv.a.place.local) and f.n_defs(rv.a.place.local) == 1:
            return _def_site(f, rv.a.place.local, depth + 1)
        return (d[1], d[2], f.rvalue_term(rv, d[1]))
    t = d[2]
    return (d[1], len(f.body.blocks[d[1]].stmts), f.call_term(t, d[1]))


def _pos_before(f, a, b):
    """position a = (bb, idx) executes before position b within one pass (a's block dominates b's, or same block with smaller idx)"""
    if a[0] == b[0]:
        return a[1] < b[1]
    return f.cfg.dominates(a[0], b[0])


def _merge_rule(prog, rep):
    """a routine of statistics:: that joins two (count, mean, M2) aggregates into one (pairwise / chunked accumulation) must return the
    aggregate of the union.  Its returned triple is evaluated on exact witnesses: the aggregates of {0, 2} and {4, 6} (equal sizes) and of
    {0} and {2, 4} (sizes 1 and 2).  Wrong on equal sizes is a violation outright; right there but wrong on unequal sizes (the
    equal-halves form of the Chan-Golub-LeVeque update) is one when a caller feeds it the two parts of `split_at(len / 2)`, which differ
    in size for every odd length.  No such routine in the crate: nothing to decide."""
    from ..precond import tev, Frame, Uneval, NC, _nk
    pdb = prog.pdb
    ncx = NC(prog)
    TRI = '(usize, f64, f64)'
    n = 0
    for k, b in sorted(pdb.bodies.items()):
        if not k.startswith(ST) or b.kind == 'closure' or b.arg_count != 2:
            continue
        if not (b.local_ty(0) == TRI and b.local_ty(1).lstrip('&') == TRI and b.local_ty(2).lstrip('&') == TRI):
            continue
        f = prog.func(k)
        if f is None:
            continue
        n += 1
        rep.touch(k)
        key = 'merge:%s' % short(k)
        rets = f.return_values()

        def run_w(A, B):
            env = {}
            for ai, agg_ in ((1, A), (2, B)):
                for fi, v in enumerate(agg_):
                    env[_nk(('field', ('arg', ai, None), fi, None))] = v
            ctx = Frame(f, env=env, ncx=ncx)
            out = []
            for r in rets:
                out.append(tuple(tev(('field', r, i, None), ctx) for i in range(3)))
            return out
        eq_w = ((2, 1.0, 2.0), (2, 5.0, 2.0), (4, 3.0, 20.0), '{0, 2} and {4, 6}')
        un_w = ((1, 0.0, 0.0), (2, 3.0, 2.0), (3, 2.0, 8.0), '{0} and {2, 4}')
        verdicts = {}
        try:
            for nm, (A, B, want, what) in (('equal', eq_w), ('unequal', un_w)):
                got = run_w(A, B)
                ok = all(g[0] == want[0] and abs(g[1] - want[1]) < 1e-12 and abs(g[2] - want[2]) < 1e-12 for g in got) and bool(got)
                verdicts[nm] = (ok, got, want, what)
        except Uneval as ex:
            rep.undecided('merge', key, 'returned aggregate not evaluated (%s)' % str(ex)[:40], site_of(b), proof=False)
            continue
        if not verdicts['equal'][0]:
            ok, got, want, what = verdicts['equal']
            rep.viol('merge', key, '%s of the aggregates of %s returns %s; the aggregate of the union is %s' % (short(k), what, got[0], want), site_of(b))
            continue
        if verdicts['unequal'][0]:
            rep.ok('merge', key, 'returns the aggregate of the union on the equal-size and the unequal-size witness')
            continue
        # exact only for parts of equal size: is it fed parts of unequal size?
        ok, got, want, what = verdicts['unequal']
        fed = None
        for kk, bb_ in sorted(pdb.bodies.items()):
            g = prog.func(kk) if kk.startswith(ST) else None
            if g is None:
                continue
            for c in g.calls():
                if c.path != k:
                    continue
                for z in subterms(c.args[0]):
                    if tag(z) == 'call' and short(z[1]) == 'split_at' and len(z[2]) == 2:
                        at_ = z[2][1]
                        if tag(at_) == 'bin' and at_[1] == 'Div' and tag(at_[3]) == 'const' and at_[3][2] == 2 and at_[2] == ('len', z[2][0]):
                            fed = (kk, show(z)[:50])
        if fed:
            rep.viol('merge', key, '%s is exact only for two parts of the same size (for the aggregates of %s it returns %s, the aggregate of the union is %s), and %s '
                     'feeds it the parts of %s, whose sizes differ by one for every odd length' % (short(k), what, got[0], want, short(fed[0]), fed[1]), site_of(b))
        else:
            rep.undecided('merge', key, '%s is exact only for parts of equal size; whether its callers guarantee that is not read' % short(k), site_of(b), proof=False)
    rep.ok('merge', 'merge:scan', '%d aggregate-joining routines in statistics::' % n)
    rep.floor('merge', 1, 'scan of statistics::')
