"""E-IDX: affine access maps, dimension environment, row-major stride discipline.

For every function:  dims(base) = (rows, cols) terms for arrays bound by the repository's own idioms,
accesses = every a[e] with e an integer polynomial over loop items and size atoms.
Rule `stride`: in a[p*S + q] with a:(R, C), S must be C (modulo established equalities) and q must range
within C."""
from .ir import tag, show, short, subterms, is_next_call
from .poly import poly, psub, padd, pscale, pmul, pconst, peq, atoms, pshow


def strip_casts(t):
    while tag(t) == 'cast' and t[1] in ('IntToInt',):
        t = t[2]
    return t


def is_unwrap_of(t, fname):
    """t == unwrap(<fname>(args..)) -> args"""
    t = strip_casts(t)
    if tag(t) == 'call' and short(t[1]) == 'unwrap' and t[2]:
        c = t[2][0]
        if tag(c) == 'call' and c[1].endswith(fname):
            return c[2]
    return None


class Access:
    __slots__ = ('base', 'idx', 'poly', 'bb', 'kind', 'term', 'span')

    def __init__(self, base, idx, bb, kind, term, span=None):
        self.base = base
        self.idx = idx
        self.poly = poly(idx)
        self.bb = bb
        self.kind = kind
        self.term = term
        self.span = span


class UF:
    def __init__(self):
        self.p = {}

    def find(self, x):
        self.p.setdefault(x, x)
        while self.p[x] != x:
            self.p[x] = self.p[self.p[x]]
            x = self.p[x]
        return x

    def union(self, a, b):
        a, b = self.find(a), self.find(b)
        if a != b:
            self.p[a] = b

    def same(self, a, b):
        return self.find(a) == self.find(b)


class IdxFunc:
    def __init__(self, prog, f):
        self.prog = prog
        self.f = f
        self.loops = [li for li in f.loop_info() if li['item'] is not None]
        self.item_loop = {li['item']: li for li in self.loops}
        self._dims = None
        self._acc = None

    # ------------------------------------------------------------------ dimension environment
    def dims(self):
        """base term -> (R, C) size terms (row-major)"""
        if self._dims is not None:
            return self._dims
        f = self.f
        d = {}
        # parameters bound by is_matrix / is_square / len assert
        for c in f.calls():
            if c.path is None:
                continue
            if c.path.endswith('utils::is_matrix') and len(c.args) == 2:
                a, r = c.args
                cterm = ('call', 'std::result::Result::<T, E>::unwrap', (c.term and f.call_term(c.term, c.bb),), None)
                d[a] = (r, cterm)
            elif c.path.endswith('utils::is_square') and len(c.args) == 1:
                a = c.args[0]
                n = ('call', 'std::result::Result::<T, E>::unwrap', (f.call_term(c.term, c.bb),), None)
                d[a] = (n, n)
        # assert!(a.len() == n*n)  /  assert_eq!(a.len(), n*m)
        for bb, gl in f.guards().items():
            for cnd, v in gl:
                if v is True and tag(cnd) == 'bin' and cnd[1] == 'Eq':
                    for x, y in ((cnd[2], cnd[3]), (cnd[3], cnd[2])):
                        if tag(x) == 'len' and tag(y) == 'bin' and y[1] == 'Mul' and x[1] not in d:
                            if f.cfg.dominates(bb, bb):
                                d[x[1]] = (y[2], y[3])
        # Matrix objects: self.data ~ (self.nrows, self.ncols)
        for t in self._all_terms():
            for z in subterms(t):
                if tag(z) == 'field' and z[2] == 0 and z[3] is not None and z[3].endswith('linalg::array::vec::Vector'):
                    base = z[1]
                    d.setdefault(z, (('field', base, 1, 'usize'), ('field', base, 2, 'usize')))
        # Matrix::data(m) is a view of m.data
        for t in self._all_terms():
            for z in subterms(t):
                if tag(z) == 'call' and z[1] in ('linalg::array::matrix::Matrix::data', 'linalg::array::matrix::Matrix::data_mut') and z[2]:
                    base = z[2][0]
                    d.setdefault(z, (('field', base, 1, 'usize'), ('field', base, 2, 'usize')))
        # locally built buffers
        for t in self._all_terms():
            for z in subterms(t):
                if tag(z) == 'call' and z[1] == 'std::vec::from_elem' and len(z[2]) == 2:
                    n = strip_casts(z[2][1])
                    if tag(n) == 'bin' and n[1] == 'Mul':
                        d.setdefault(z, (n[2], n[3]))
                elif tag(z) == 'call' and short(z[1]) in ('to_vec', 'to_owned', 'clone') and z[2] and z[2][0] in d:
                    d.setdefault(z, d[z[2][0]])
                elif tag(z) == 'call' and z[1] in ('linalg::array::vec::Vector::new',) and z[2] and z[2][0] in d:
                    d.setdefault(z, d[z[2][0]])
                elif tag(z) == 'call' and z[1].endswith('utils::transpose') and z[2] and z[2][0] in d:
                    r, c = d[z[2][0]]
                    d.setdefault(z, (c, r))
                elif tag(z) == 'call' and z[1] in ('linalg::array::matrix::Matrix::zeros', 'linalg::array::matrix::Matrix::ones') and len(z[2]) == 2:
                    d.setdefault(('field', z, 0, 'linalg::array::vec::Vector'), (z[2][0], z[2][1]))
        # Matrix::zeros(r, c) / ones: the data field has shape (r, c)
        for k in list(d):
            if tag(k) == 'field' and tag(k[1]) == 'call' and k[1][1] in ('linalg::array::matrix::Matrix::zeros', 'linalg::array::matrix::Matrix::ones') and len(k[1][2]) == 2:
                d[k] = (k[1][2][0], k[1][2][1])
        # second pass for chains
        changed = True
        rounds = 0
        while changed and rounds < 3:
            changed = False
            rounds += 1
            for t in self._all_terms():
                for z in subterms(t):
                    if z in d:
                        continue
                    if tag(z) == 'call' and short(z[1]) in ('to_vec', 'to_owned', 'clone') and z[2] and z[2][0] in d:
                        d[z] = d[z[2][0]]
                        changed = True
                    elif tag(z) == 'call' and z[1].endswith('utils::transpose') and z[2] and z[2][0] in d:
                        r, c = d[z[2][0]]
                        d[z] = (c, r)
                        changed = True
                    elif tag(z) == 'local':
                        # a local re-bound on several paths: all definitions must agree
                        vals = [s.value for s in f.stores() if s.target == z]
                        if vals and all(v in d for v in vals):
                            shapes = {d[v] for v in vals}
                            if len(shapes) == 1:
                                d[z] = shapes.pop()
                                changed = True
        self._dims = d
        return d

    def _all_terms(self):
        if getattr(self, '_terms', None) is None:
            f = self.f
            ts = []
            for s in f.stores():
                ts.append(s.target)
                ts.append(s.value)
            for c in f.calls():
                ts.extend(c.args)
            for bb, gl in f.guards().items():
                for cnd, v in gl:
                    ts.append(cnd)
            ts.extend(f.return_values())
            self._terms = ts
        return self._terms

    # ------------------------------------------------------------------ accesses
    def accesses(self):
        if self._acc is not None:
            return self._acc
        f = self.f
        out = []
        seen = set()

        def scan(t, bb, span, kind):
            for z in subterms(t):
                if tag(z) == 'index' and tag(z[2]) not in ('range', 'rangeincl') and not _is_rangeish(z[2]):
                    k = (z, bb, kind)
                    if k in seen:
                        continue
                    seen.add(k)
                    out.append(Access(z[1], z[2], bb, kind, z, span))
        for s in f.stores():
            if tag(s.target) == 'index':
                out.append(Access(s.target[1], s.target[2], s.bb, 'store', s.target, s.span))
                seen.add((s.target, s.bb, 'store'))
                scan(s.target[1], s.bb, s.span, 'read')
                scan(s.target[2], s.bb, s.span, 'read')
            else:
                scan(s.target, s.bb, s.span, 'read')
            scan(s.value, s.bb, s.span, 'read')
        for c in f.calls():
            for a in c.args:
                scan(a, c.bb, c.span, 'read')
        for bb, gl in f.guards().items():
            for cnd, v in gl:
                scan(cnd, bb, None, 'read')
        for r in f.return_values():
            scan(r, f.cfg.returns[0] if f.cfg.returns else 0, None, 'read')
        self._acc = out
        return out

    def range_slices(self):
        """row-slice accesses a[lo..hi]: list of (base, lo, hi, bb)"""
        f = self.f
        out = []
        seen = set()
        for t in self._all_terms():
            for z in subterms(t):
                if tag(z) == 'index' and tag(z[2]) == 'range' and z not in seen:
                    seen.add(z)
                    out.append((z[1], z[2][1], z[2][2], z))
        return out

    # ------------------------------------------------------------------ equalities
    def equalities(self, bb):
        """union-find over size terms from guards holding at bb (Eq is True) incl. in-crate predicates"""
        f = self.f
        uf = UF()
        for cnd, v in f.guards().get(bb, []):
            self._add_eq(uf, cnd, v)
        return uf

    def _add_eq(self, uf, cnd, v, depth=0):
        if tag(cnd) == 'bin' and cnd[1] == 'Eq' and v is True:
            uf.union(strip_casts(cnd[2]), strip_casts(cnd[3]))
        elif tag(cnd) == 'bin' and cnd[1] == 'Ne' and v is False:
            uf.union(strip_casts(cnd[2]), strip_casts(cnd[3]))
        elif tag(cnd) == 'call' and cnd[1] in self.prog.pdb.bodies and v is True and depth < 2:
            # predicate implication table derived from the callee's own return term(s):
            g = self.prog.func(cnd[1])
            rets = g.return_values()
            mapping = {}
            for i, a in enumerate(cnd[2]):
                mapping[('arg', i + 1, g.names.get(i + 1))] = a
            from .structs import subst
            # (a) the predicate returns a comparison directly
            if len(rets) == 1:
                self._add_eq(uf, subst(rets[0], mapping), True, depth + 1)
            else:
                # (b) returns true only on paths dominated by some guards: intersect guards of `true` stores
                true_bbs = [s.bb for s in g.stores() if tag(s.target) == 'local' and s.target[1] == 0 and tag(s.value) == 'const' and s.value[2] is True]
                if not true_bbs:
                    true_bbs = [d[1] for d in g._defs.get(0, []) if d[0] == 'assign' and d[3].kind == 'use' and d[3].a.kind == 'const' and d[3].a.val is True]
                common = None
                for tb in true_bbs:
                    gs = set(g.guards().get(tb, []))
                    common = gs if common is None else (common & gs)
                for c2, v2 in (common or []):
                    self._add_eq(uf, subst(c2, mapping), v2, depth + 1)
        elif tag(cnd) == 'call' and cnd[1].endswith('PartialEq<[U; N]> for [T; N]>::eq') and v is True:
            a, b = cnd[2]
            sa, sb = self._shape_array(a), self._shape_array(b)
            if sa and sb:
                for x, y in zip(sa, sb):
                    uf.union(x, y)

    def _shape_array(self, t):
        if tag(t) == 'call' and t[1].endswith('Matrix::shape') and t[2]:
            m = t[2][0]
            return [('field', m, 1, 'usize'), ('field', m, 2, 'usize')]
        if tag(t) == 'agg' and t[1] == 'array':
            return list(t[3])
        return None

    # ------------------------------------------------------------------ items
    def item_range(self, item):
        li = self.item_loop.get(item)
        if li is None:
            return None
        it = li['iter']
        rev = False
        while tag(it) == 'call' and short(it[1]) in ('rev', 'into_iter'):
            if short(it[1]) == 'rev':
                rev = True
            it = it[2][0]
        if tag(it) == 'range':
            return (poly(it[1]), poly(it[2]), False)
        if tag(it) == 'rangeincl':
            return (poly(it[1]), poly(it[2]), True)
        return None

    def items_in(self, p):
        return [a for a in atoms(p) if tag(a) == 'item']

    def upper_bound(self, p, depth=0):
        """upper bound polynomial of p obtained by replacing each loop item by its maximum (hi - 1), assuming
        non-negative coefficients on items; None if not derivable"""
        items = self.items_in(p)
        if depth > 6:
            return None
        if not items:
            # min(a, b) <= a
            mins = [a for a in atoms(p) if tag(a) == 'call' and a[1] in ('std::cmp::min', 'std::cmp::Ord::min', 'core::cmp::min') and len(a[2]) == 2]
            if mins:
                mn = mins[0]
                out = {}
                for m, c in p.items():
                    n = sum(1 for x in m if x == mn)
                    if n == 0:
                        out = padd(out, {m: c})
                    elif n == 1 and c > 0:
                        rest = tuple(x for x in m if x != mn)
                        out = padd(out, pmul({rest: c}, poly(mn[2][0])))
                    else:
                        return None
                return self.upper_bound(out, depth + 1)
            return p
        it = items[0]
        r = self.item_range(it)
        if r is None:
            return None
        lo, hi, incl = r
        mx = hi if incl else psub(hi, {(): 1})
        # substitute
        out = {}
        for m, c in p.items():
            n = sum(1 for x in m if x == it)
            if n == 0:
                out = padd(out, {m: c})
            elif n == 1:
                if c < 0:
                    # negative coefficient: use the minimum
                    sub = lo
                else:
                    sub = mx
                rest = tuple(x for x in m if x != it)
                out = padd(out, pmul({rest: c}, sub))
            else:
                return None
        return self.upper_bound(out, depth + 1)

    def _is_counter(self, x):
        """a multi-def local updated inside a loop (loop-carried index), as opposed to a size computed once"""
        if tag(x) != 'local':
            return False
        f = self.f
        inloop = set()
        for li in f.loop_info():
            inloop |= li['blocks']
        return any(s.target == x and s.bb in inloop for s in f.stores())

    # ------------------------------------------------------------------ decomposition
    def split_stride(self, p, prefer=()):
        """p = rowpart*S + colpart where S is a size atom multiplying loop items / other index parts.
        returns (S, rowpoly, colpoly) or None when p has no degree-2 (index x size) monomial.
        Candidates listed in `prefer` (e.g. the bound column count) are tried first."""
        cands = []
        for m, c in p.items():
            if len(m) >= 2:
                sizes = [x for x in m if tag(x) != 'item' and not self._is_counter(x)]
                for s in sizes:
                    if s not in cands:
                        cands.append(s)
        pref = [strip_casts(x) for x in prefer]
        cands.sort(key=lambda x: (0 if strip_casts(x) in pref else 1, 0 if tag(x) in ('field', 'call', 'len') else 1))
        for S in cands:
            row = {}
            col = {}
            ok = True
            for m, c in p.items():
                n = sum(1 for x in m if x == S)
                if n == 1:
                    rest = list(m)
                    rest.remove(S)
                    row = padd(row, {tuple(rest): c})
                elif n == 0:
                    col = padd(col, {m: c})
                else:
                    ok = False
            if ok and row:
                # the remaining parts must not contain another size atom times an index
                if all(len(m) <= 1 or all(tag(x) == 'item' or self._is_counter(x) for x in m) for m in col):
                    return S, row, col
        return None


def _is_rangeish(t):
    return tag(t) in ('range', 'rangeincl') or (tag(t) == 'agg' and t[1] == 'adt' and t[2] and 'Range' in t[2])


def check_stride(prog, f, rep, rule='stride', keyprefix=None, exceptions=None, colmajor=None):
    """stride obligations for every 2-D access in f whose base is bound to a shape"""
    from .framework import site_of
    ix = IdxFunc(prog, f)
    d = ix.dims()
    exceptions = exceptions or {}
    fk = f.body.key
    n = 0
    for a in ix.accesses():
        base = a.base
        shape = d.get(base)
        sp = ix.split_stride(a.poly, prefer=(shape[1], shape[0]) if shape else ())
        if sp is None:
            continue
        key = '%s:%s:%s[%s]' % (rule, keyprefix or fk, show(base), pshow(a.poly, show))
        if shape is None:
            rep.info(rule, key, 'array %s is not bound to a shape; access not checked' % show(base))
            continue
        n += 1
        S, row, col = sp
        R, C = shape
        if colmajor and show(base) in colmajor:
            # listed column-major array: the stride is the row count and the roles of row/column swap
            R, C = C, R
        uf = ix.equalities(a.bb)
        Sn, Cn = strip_casts(S), strip_casts(C)
        exc = exceptions.get(show(base))
        if Sn == Cn or uf.same(Sn, Cn):
            # column part within C
            ub = ix.upper_bound(col)
            okc = None
            if ub is not None and ix.items_in(col):
                diff = psub(psub(poly(Cn), {(): 1}), ub)
                diff = _canon_poly(diff, uf)
                catoms = set(atoms(_canon_poly(poly(Cn), uf)))
                if all(set(m) <= catoms for m in diff):
                    okc = all(c >= 0 for c in diff.values())
            elif ub is not None and not ix.items_in(col):
                # a parameter used as column index: look for the bounds assert col < C
                colt = [a for a in atoms(col)]
                for cnd, v in f.guards().get(a.bb, []):
                    if v is True and tag(cnd) == 'bin' and cnd[1] == 'Lt' and peq(poly(cnd[2]), col) and (strip_casts(cnd[3]) == Cn or uf.same(strip_casts(cnd[3]), Cn)):
                        okc = True
            if okc is False:
                rep.viol(rule, key, 'in %s[%s] the column part %s can reach %s which is not below the column count %s: the access wraps into the next row' % (
                    show(base), pshow(a.poly, show), pshow(col, show), pshow(ub, show), show(C)), site_of(a.span) or site_of(f.body))
            else:
                rep.ok(rule, key, 'stride %s = column count of %s%s' % (show(S), show(base), '' if okc else ' (column range not derivable)'))
        elif exc is not None:
            rep.ok(rule, key, 'listed exception: %s' % exc)
        else:
            rep.viol(rule, key, '%s is a %s x %s row-major array but is indexed as [%s * %s + %s]: the row stride must be the column count %s '
                     '(for a non-square shape this reads a different element)' % (show(base), show(R), show(C), pshow(row, show), show(S), pshow(col, show), show(C)),
                     site_of(a.span) or site_of(f.body))
    # row slices a[lo..hi]
    for base, lo, hi, term in ix.range_slices():
        shape = d.get(base)
        plo, phi = poly(lo), poly(hi)
        sp = ix.split_stride(plo, prefer=(shape[1], shape[0]) if shape else ())
        if sp is None or shape is None:
            continue
        n += 1
        S, row, col = sp
        R, C = shape
        if colmajor and show(base) in colmajor:
            R, C = C, R
        key = '%s:%s:%s[%s..%s]' % (rule, keyprefix or fk, show(base), pshow(plo, show), pshow(phi, show))
        Sn, Cn = strip_casts(S), strip_casts(C)
        # equalities: use the guards of the first block that mentions the slice (function-level asserts)
        uf = UF()
        for bb in f.cfg.nodes:
            for cnd, v in f.guards().get(bb, []):
                pass
        bbs = [a.bb for a in ix.accesses() if any(z == term for z in subterms(a.term))] or [c.bb for c in f.calls() if any(any(z == term for z in subterms(x)) for x in c.args)]
        if bbs:
            uf = ix.equalities(bbs[0])
        if not (Sn == Cn or uf.same(Sn, Cn)):
            rep.viol(rule, key, '%s is a %s x %s row-major array but the row slice starts at [%s * %s + %s]: the row stride must be the column count %s' % (
                show(base), show(R), show(C), pshow(row, show), show(S), pshow(col, show), show(C)), site_of(f.body))
            continue
        ext = padd(psub(phi, plo), col)       # columns covered end at col + (hi - lo)
        ub = ix.upper_bound(ext)
        okc = None
        if ub is not None:
            diff = _canon_poly(psub(poly(Cn), ub), uf)
            catoms = set(atoms(_canon_poly(poly(Cn), uf)))
            if all(set(m) <= catoms for m in diff):
                okc = all(c >= 0 for c in diff.values())
        if okc is False:
            rep.viol(rule, key, 'the row slice %s[%s..%s] can extend past the end of its row (%s columns)' % (show(base), pshow(plo, show), pshow(phi, show), show(C)), site_of(f.body))
        else:
            rep.ok(rule, key, 'row slice with stride %s = column count%s' % (show(S), '' if okc else ' (extent not derivable)'))
    return n


def _canon_poly(p, uf):
    """rewrite atoms to their union-find representative so that equal sizes cancel"""
    out = {}
    for m, c in p.items():
        m2 = tuple(sorted((uf.find(strip_casts(x)) if strip_casts(x) in uf.p else x for x in m), key=repr))
        out[m2] = out.get(m2, 0) + c
        if out[m2] == 0:
            del out[m2]
    return out
