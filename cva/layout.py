"""Layout algebra for multi-right-hand-side solvers (C01 D3).

A flat buffer is abstracted as a row-major matrix ((m_r, R), (m_c, C)): the row axis has meaning m_r and R entries, the column
axis meaning m_c and C entries, meanings being 'comp' (component of a vector, N of them) and 'sys' (which right-hand side, S of
them).  B enters as (comp x sys); the result must be (comp x sys) with entry (i, j) = component i of the solution of system j.

  transpose(x, r)          : needs r == rows(x);                      result = swap(x)
  row_to_col_major(x, r)   : needs r == rows(x); column-major storage of x is row-major storage of swap(x)
  col_to_row_major(x, r)   : x holds a column-major r x c matrix, i.e. is row-major (c x r): needs r == cols(x); result = swap(x)
  Matrix::new(x, r, c)     : needs r == rows(x), c == cols(x)
  Matrix::t(x)             : swap(x)
  rows of x                : x[i*k..(i+1)*k] for i in 0..cnt (k == cols(x), cnt == rows(x)), x.chunks(k), or
                             get_col_as_vector(m, i) for i in 0..ncols (a row of swap(m))
  solutions buffer         : one solve result (length N, meaning comp) appended per row, in order -> ((m_r, R), ('comp', N))

Mismatch (a decision) is raised when a size argument contradicts the tracked layout or the final layout is not comp x sys;
Unrecognised when a term is outside this algebra (no verdict)."""
from .ir import tag, show, short, subterms
from .poly import poly, peq, pmul, padd

U = 'linalg::utils::'
M = 'linalg::array::matrix::Matrix'


class Mismatch(Exception):
    pass


class Unrecognised(Exception):
    pass


def _strip(t):
    while True:
        if tag(t) == 'cast':
            t = t[2]
        elif tag(t) == 'call' and short(t[1]) in ('deref', 'deref_mut', 'as_slice', 'as_ref', 'borrow', 'to_vec', 'clone', 'into', 'from') and len(t[2]) == 1:
            t = t[2][0]
        elif tag(t) == 'call' and t[1] in ('linalg::array::vec::Vector::new',) and len(t[2]) == 1:
            t = t[2][0]
        elif tag(t) == 'field' and t[3] is not None and ('Vector' in str(t[3]) or 'Vec<' in str(t[3])) and tag(t[1]) != 'arg':
            t = t[1]
        else:
            return t


class LayoutEval:
    def __init__(self, f, sizes, base):
        """sizes: list of (predicate(term) -> bool, name) canonical size names; base: {term: layout}"""
        self.f = f
        self.sizes = sizes
        self.base = dict(base)
        self.log = []

    def size(self, t):
        t0 = t
        while tag(t) == 'cast':
            t = t[2]
        for pred, name in self.sizes:
            if pred(t):
                return name
        return show(t0)

    def same(self, t, axis):
        return self.size(t) == axis[1]

    def swap(self, l):
        return (l[1], l[0])

    def lay(self, t):
        t = _strip(t)
        if t in self.base:
            return self.base[t]
        if tag(t) == 'field' and _strip(t[1]) in self.base and t[2] == 0:
            return self.base[_strip(t[1])]
        if tag(t) != 'call':
            raise Unrecognised('term %s' % show(t)[:60])
        p, a = t[1], t[2]
        if p == U + 'transpose':
            x = self.lay(a[0])
            if not self.same(a[1], x[0]):
                raise Mismatch('transpose(.., %s) is told the array has %s rows, but it holds %s rows of %s (%s x %s)' % (
                    self.size(a[1]), self.size(a[1]), x[0][1], x[1][1], x[0][0], x[1][0]))
            return self.swap(x)
        if p == U + 'row_to_col_major':
            x = self.lay(a[0])
            if not self.same(a[1], x[0]):
                raise Mismatch('row_to_col_major(.., %s): the array has %s rows' % (self.size(a[1]), x[0][1]))
            return self.swap(x)
        if p == U + 'col_to_row_major':
            x = self.lay(a[0])
            if not self.same(a[1], x[1]):
                raise Mismatch('col_to_row_major(.., %s): the buffer holds %s columns of length %s, so the column-major matrix has %s rows' % (
                    self.size(a[1]), x[0][1], x[1][1], x[1][1]))
            return self.swap(x)
        if p == M + '::new':
            x = self.lay(a[0])
            if not (self.same(a[1], x[0]) and self.same(a[2], x[1])):
                raise Mismatch('Matrix::new(.., %s, %s) on a buffer of %s rows of %s' % (self.size(a[1]), self.size(a[2]), x[0][1], x[1][1]))
            return x
        if p == M + '::t':
            return self.swap(self.lay(a[0]))
        raise Unrecognised('call %s' % short(p))

    # ---- rows
    def row_of(self, t, loops):
        """t is a slice/vector that is one row of a tracked matrix; returns (matrix layout, how the rows are enumerated ok?)"""
        t = _strip(t)
        if tag(t) == 'index' and tag(t[2]) == 'range':
            x = self.lay(t[1])
            lo, hi = t[2][1], t[2][2]
            items = [z for z in subterms(lo) if tag(z) == 'item']
            if len(items) != 1:
                raise Unrecognised('row slice bounds %s' % show(lo)[:40])
            i = items[0]
            k = None
            plo = poly(lo)
            for mono, c in plo.items():
                if i in mono and c == 1 and len(mono) == 2:
                    k = [z for z in mono if z != i][0]
            if k is None:
                raise Unrecognised('row slice [%s..%s]' % (show(lo)[:30], show(hi)[:30]))
            if not self.same(k, x[1]):
                raise Mismatch('rows are cut with stride %s but the buffer has rows of length %s' % (self.size(k), x[1][1]))
            from .poly import psub
            w = psub(poly(hi), plo)
            if not peq(w, poly(k)):
                wt = [m for m in w if m]
                if len(w) == 1 and len(wt) == 1 and len(wt[0]) == 1 and w[wt[0]] == 1 and not self.same(wt[0][0], x[1]):
                    raise Mismatch('row slices have width %s but the rows have length %s' % (self.size(wt[0][0]), x[1][1]))
                if not (len(w) == 1 and len(wt) == 1 and len(wt[0]) == 1 and w[wt[0]] == 1):
                    raise Unrecognised('row slice width')
            rng = i[2]
            if not (tag(rng) == 'range' and tag(rng[1]) == 'const' and rng[1][2] == 0 and self.same(rng[2], x[0])):
                raise Mismatch('row loop runs over %s, the buffer has %s rows' % (show(rng)[:40], x[0][1]))
            return x
        if tag(t) == 'item' and tag(t[2]) == 'call' and short(t[2][1]) in ('chunks', 'chunks_exact'):
            x = self.lay(t[2][2][0])
            if not self.same(t[2][2][1], x[1]):
                raise Mismatch('chunks(%s) on a buffer whose rows have length %s' % (self.size(t[2][2][1]), x[1][1]))
            return x
        if tag(t) == 'call' and t[1] == M + '::get_row_as_vector':
            x = self.lay(t[2][0])
            i = t[2][1]
            if tag(i) != 'item' or not (tag(i[2]) == 'range' and tag(i[2][1]) == 'const' and i[2][1][2] == 0 and self.same(i[2][2], x[0])):
                raise Mismatch('row loop %s does not run over the %s rows' % (show(i)[:40], x[0][1]))
            return x
        if tag(t) == 'call' and t[1] == M + '::get_col_as_vector':
            x = self.lay(t[2][0])
            i = t[2][1]
            if tag(i) != 'item' or not (tag(i[2]) == 'range' and tag(i[2][1]) == 'const' and i[2][1][2] == 0 and self.same(i[2][2], x[1])):
                raise Mismatch('column loop %s does not run over the %s columns' % (show(i)[:40], x[1][1]))
            return self.swap(x)
        raise Unrecognised('row term %s' % show(t)[:60])
