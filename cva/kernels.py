"""E-IDX rule `kernel-cover` / `elementwise`: W-way unrolled loop + remainder loop.

Lemma (DESIGN appendix A): with q = (n - n mod W)/W, stores at W*i+c (c = 0..W-1, once each) for
i in 0..q and at j for j in W*q..n write every index of 0..n exactly once, for every n.
This module matches a function against that idiom and checks that all W+1 lanes compute the same
expression of the elements at their own index."""
from .ir import tag, show, subterms, map_term, is_next_call, short
from .poly import poly, psub, pconst, peq, pshow
from .framework import site_of


def _match_chunks(t):
    """t == (n - n % W) / W  ->  (n, W) else None"""
    if tag(t) == 'bin' and t[1] == 'Div' and tag(t[3]) == 'const':
        W = t[3][2]
        num = t[2]
        if tag(num) == 'bin' and num[1] == 'Sub':
            n = num[2]
            r = num[3]
            if tag(r) == 'bin' and r[1] == 'Rem' and r[2] == n and tag(r[3]) == 'const' and r[3][2] == W:
                return n, W
    return None


def _index_reads(v):
    """all ('index', base, idx) subterms of v"""
    return [x for x in subterms(v) if tag(x) == 'index']


def _shape(v, idx_poly, lane_marker=('LANE',)):
    """replace every index(X, e) with e == idx_poly by ('elem', X); returns (shape, foreign) where foreign
    lists index reads at another position"""
    foreign = []

    def f(n):
        if tag(n) == 'index':
            if peq(poly(n[2]), idx_poly):
                return ('elem', n[1])
            foreign.append(n)
        return n
    sh = map_term(v, f)
    return map_term(sh, _comm), foreign


def _comm(n):
    """IEEE-754 addition and multiplication are commutative: canonical operand order"""
    if tag(n) == 'bin' and n[4] == 'f64' and n[1] in ('Add', 'Mul') and repr(n[2]) > repr(n[3]):
        return ('bin', n[1], n[3], n[2], n[4])
    return n


def _flatten_add(v):
    if tag(v) == 'bin' and v[1] == 'Add' and v[4] == 'f64':
        return _flatten_add(v[2]) + _flatten_add(v[3])
    return [v]


class KernelResult:
    def __init__(self):
        self.ok = []       # (aspect, detail)
        self.bad = []      # (aspect, detail)
        self.und = []      # (aspect, detail)
        self.shape = None
        self.W = None
        self.kind = None   # 'buffer' | 'inplace' | 'accumulate'


def analyse_kernel(f, allow_power_lanes=False):
    """f: ir.Func of a candidate unrolled kernel"""
    R = KernelResult()
    loops = [li for li in f.loop_info() if li['item'] is not None]
    if len(loops) < 2:
        R.und.append(('idiom', 'expected an unrolled loop and a remainder loop, found %d iterator loops' % len(loops)))
        return R
    # classify loops
    unrolled = []
    remainder = []
    for li in loops:
        it = li['iter']
        if tag(it) == 'range' and _match_chunks(it[2]) and tag(it[1]) == 'const' and it[1][2] == 0:
            unrolled.append(li)
        else:
            remainder.append(li)
    if not unrolled or len(remainder) != 1:
        R.und.append(('idiom', 'loops do not match 0..chunks / remainder (unrolled=%d, other=%d)' % (len(unrolled), len(remainder))))
        return R
    n, W = _match_chunks(unrolled[0]['iter'][2])
    R.W = W
    for li in unrolled[1:]:
        if _match_chunks(li['iter'][2]) != (n, W):
            R.bad.append(('chunks', 'unrolled loops disagree on (n, W)'))
    if tag(n) != 'len':
        R.und.append(('chunks', 'n is not the length of an input: %s' % show(n)))
        return R
    R.ok.append(('chunks', 'chunks = (n - n %% %d) / %d with n = %s' % (W, W, show(n))))
    # remainder range
    rem = remainder[0]
    rit = rem['iter']
    chunksW = None
    if tag(rit) == 'range':
        lo, hi = rit[1], rit[2]
        want = {(): 0}
        lo_ok = peq(poly(lo), poly(('bin', 'Mul', unrolled[0]['iter'][2], ('const', 'usize', W), 'usize')))
        hi_ok = hi == n
        if lo_ok and hi_ok:
            R.ok.append(('remainder-range', 'remainder loop ranges over %d*chunks..n' % W))
        else:
            R.bad.append(('remainder-range', 'remainder loop is %s, expected %d*chunks..%s' % (show(rit), W, show(n))))
        rem_index = poly(rem['item'])
        rem_elem_of = None
    elif tag(rit) == 'call' and short(rit[1]) == 'skip':
        # x.iter().take(n).skip(chunks*W)
        inner = rit[2][0]
        skipn = rit[2][1]
        ok = peq(poly(skipn), poly(('bin', 'Mul', unrolled[0]['iter'][2], ('const', 'usize', W), 'usize')))
        base = None
        if tag(inner) == 'call' and short(inner[1]) == 'take' and inner[2][1] == n:
            src = inner[2][0]
            if tag(src) == 'call' and short(src[1]) == 'iter':
                base = src[2][0]
        if ok and base is not None and ('len', base) == n:
            R.ok.append(('remainder-range', 'remainder iterates %s.iter().take(n).skip(%d*chunks)' % (show(base), W)))
        else:
            R.bad.append(('remainder-range', 'remainder iterator %s is not iter().take(n).skip(%d*chunks)' % (show(rit), W)))
        rem_index = None
        rem_elem_of = base
    else:
        R.und.append(('remainder-range', 'unrecognised remainder iterator %s' % show(rit)))
        return R

    stores = [s for s in f.stores() if not (tag(s.target) == 'local' and f.body.local_ty(s.target[1]) == '()')]
    # output object
    targets = set()
    for s in stores:
        t = s.target
        targets.add(t[1] if tag(t) == 'index' else t)
    accum = [t for t in targets if tag(t) == 'local' and f.body.local_ty(t[1]) == 'f64']
    arrays = [t for t in targets if t not in accum]
    if accum and not arrays and len(accum) == 1:
        R.kind = 'accumulate'
        return _accumulate(f, R, accum[0], unrolled, rem, rem_index, rem_elem_of, W, stores)
    if len(arrays) != 1 or accum:
        R.und.append(('idiom', 'cannot identify a single output (arrays=%s accum=%s)' % ([show(a) for a in arrays], [show(a) for a in accum])))
        return R
    out = arrays[0]
    if tag(out) == 'arg':
        R.kind = 'inplace'
        if ('len', out) != n:
            R.bad.append(('buffer-len', 'in-place kernel writes %s but n is %s' % (show(out), show(n))))
        else:
            R.ok.append(('buffer-len', 'in-place on %s, n = its length' % show(out)))
    elif tag(out) == 'call' and short(out[1]) == 'with_capacity':
        R.kind = 'buffer'
        setlen = [c for c in f.calls() if c.path and short(c.path) == 'set_len' and c.args and c.args[0] == out]
        if out[2][0] == n and len(setlen) == 1 and setlen[0].args[1] == n:
            R.ok.append(('buffer-len', 'output = with_capacity(n) + set_len(n)'))
        else:
            R.bad.append(('buffer-len', 'output buffer capacity/len is not n (%s)' % show(out)))
        rets = f.return_values()
        if rets != [out]:
            R.bad.append(('buffer-len', 'returned value is not the written buffer'))
    else:
        R.und.append(('idiom', 'unrecognised output object %s' % show(out)))
        return R

    loop_of = {}
    for li in unrolled:
        for b in li['blocks']:
            loop_of[b] = li
    shapes = []
    for li in unrolled:
        item = li['item']
        base_poly = poly(('bin', 'Mul', item, ('const', 'usize', W), 'usize'))
        lanes = {}
        for s in stores:
            if s.bb not in li['blocks'] or tag(s.target) != 'index' or s.target[1] != out:
                continue
            d = pconst(psub(poly(s.target[2]), base_poly))
            if d is None:
                R.bad.append(('unrolled-lanes', 'store at %s is not %d*i + c' % (show(s.target[2]), W)))
                continue
            lanes.setdefault(d, []).append(s)
        missing = [c for c in range(W) if c not in lanes]
        dup = [c for c, l in lanes.items() if len(l) > 1]
        extra = [c for c in lanes if c < 0 or c >= W]
        if missing or dup or extra:
            R.bad.append(('unrolled-lanes', 'loop at bb%d: lanes missing %s duplicated %s out of range %s' % (li['header'], missing, dup, extra)))
        else:
            R.ok.append(('unrolled-lanes', 'loop at bb%d stores exactly at %d*i + {0..%d}' % (li['header'], W, W - 1)))
        lane_shapes = set()
        for c, l in sorted(lanes.items()):
            for s in l:
                sh, foreign = _shape(s.value, poly(s.target[2]))
                if foreign:
                    R.bad.append(('elementwise', 'lane +%d reads %s while writing index %s' % (c, ', '.join(show(x) for x in foreign), show(s.target[2]))))
                lane_shapes.add(sh)
        if len(lane_shapes) > 1:
            R.bad.append(('lane-shape', 'lanes of loop at bb%d compute different expressions: %s' % (li['header'], ' | '.join(sorted(show(x) for x in lane_shapes)))))
        elif lane_shapes:
            shapes.append((li, next(iter(lane_shapes))))
    # remainder
    rem_shape = None
    rs = [s for s in stores if s.bb in rem['blocks'] and tag(s.target) == 'index' and s.target[1] == out]
    if len(rs) != 1:
        R.bad.append(('remainder-range', 'remainder loop has %d stores to the output' % len(rs)))
    else:
        s = rs[0]
        if rem_index is None or not peq(poly(s.target[2]), rem_index):
            R.bad.append(('remainder-range', 'remainder store index %s is not the loop variable' % show(s.target[2])))
        sh, foreign = _shape(s.value, poly(s.target[2]))
        if foreign:
            R.bad.append(('elementwise', 'remainder lane reads %s while writing index %s' % (', '.join(show(x) for x in foreign), show(s.target[2]))))
        rem_shape = sh
    # stores outside the two loops
    inloops = set(rem['blocks'])
    for li in unrolled:
        inloops |= li['blocks']
    for s in stores:
        if tag(s.target) == 'index' and s.target[1] == out and s.bb not in inloops:
            R.bad.append(('unrolled-lanes', 'store to the output outside the two loops at bb%d' % s.bb))
    # all shapes equal the remainder shape (power lanes: product of k copies under guard arg == k)
    guards = f.guards()
    for li, sh in shapes:
        if sh == rem_shape:
            continue
        if allow_power_lanes:
            k = _power_of_elem(sh)
            if k is not None and rem_shape is not None and _is_powi_shape(rem_shape):
                expo = rem_shape[2][1]
                g = guards.get(li['header'], [])
                if any(c == ('bin', 'Eq', expo, ('const', 'i32', k), 'i32') and v is True for c, v in g):
                    R.ok.append(('lane-shape', 'loop at bb%d: product of %d copies under guard arg == %d' % (li['header'], k, k)))
                    continue
        R.bad.append(('lane-shape', 'unrolled lanes compute %s but the remainder computes %s' % (show(sh), show(rem_shape) if rem_shape else None)))
    if shapes and rem_shape is not None and not any(a == 'lane-shape' for a, _ in R.bad):
        R.ok.append(('lane-shape', 'all %d+1 lanes compute %s' % (W, show(rem_shape))))
    if not any(a == 'elementwise' for a, _ in R.bad):
        R.ok.append(('elementwise', 'every lane reads its inputs only at the index it writes'))
    R.shape = rem_shape
    return R


def _power_of_elem(sh):
    """sh == e*e*...*e (k copies of the same ('elem', X)) -> k"""
    def leaves(t):
        if tag(t) == 'bin' and t[1] == 'Mul' and t[4] == 'f64':
            a = leaves(t[2])
            b = leaves(t[3])
            if a is None or b is None:
                return None
            return a + b
        if tag(t) == 'elem':
            return [t]
        return None
    l = leaves(sh)
    if l and all(x == l[0] for x in l) and len(l) >= 2:
        return len(l)
    return None


def _is_powi_shape(sh):
    return tag(sh) == 'call' and sh[1].endswith('::powi') and len(sh[2]) == 2 and tag(sh[2][0]) == 'elem'


def _accumulate(f, R, acc, unrolled, rem, rem_index, rem_elem_of, W, stores):
    li = unrolled[0]
    if len(unrolled) != 1:
        R.und.append(('idiom', 'accumulating kernel with several unrolled loops'))
        return R
    item = li['item']
    base_poly = poly(('bin', 'Mul', item, ('const', 'usize', W), 'usize'))
    ss = [s for s in stores if s.target == acc]
    init = [s for s in ss if s.bb not in li['blocks'] and s.bb not in rem['blocks']]
    inl = [s for s in ss if s.bb in li['blocks']]
    inr = [s for s in ss if s.bb in rem['blocks']]
    if len(init) != 1 or not (tag(init[0].value) == 'const' and init[0].value[2] == 0.0):
        R.bad.append(('buffer-len', 'accumulator is not initialised to 0.0 exactly once'))
    else:
        R.ok.append(('buffer-len', 'accumulator initialised to 0.0'))
    if len(inl) != 1 or len(inr) != 1:
        R.bad.append(('unrolled-lanes', 'expected one accumulate statement per loop (got %d, %d)' % (len(inl), len(inr))))
        return R
    terms = _flatten_add(inl[0].value)
    if acc not in terms:
        R.bad.append(('lane-shape', 'unrolled statement is not acc += ...'))
        return R
    terms.remove(acc)
    lanes = {}
    shapes = set()
    for t in terms:
        reads = _index_reads(t)
        if not reads:
            R.bad.append(('lane-shape', 'summand %s reads no element' % show(t)))
            continue
        p0 = poly(reads[0][2])
        d = pconst(psub(p0, base_poly))
        if d is None:
            R.bad.append(('unrolled-lanes', 'summand index %s is not %d*i + c' % (show(reads[0][2]), W)))
            continue
        lanes.setdefault(d, []).append(t)
        sh, foreign = _shape(t, p0)
        if foreign:
            R.bad.append(('elementwise', 'summand +%d mixes indices: %s' % (d, ', '.join(show(x) for x in foreign))))
        shapes.add(sh)
    missing = [c for c in range(W) if c not in lanes]
    dup = [c for c, l in lanes.items() if len(l) > 1]
    extra = [c for c in lanes if c < 0 or c >= W]
    if missing or dup or extra:
        R.bad.append(('unrolled-lanes', 'summands missing %s duplicated %s out of range %s' % (missing, dup, extra)))
    else:
        R.ok.append(('unrolled-lanes', 'unrolled statement adds lanes %d*i + {0..%d} once each' % (W, W - 1)))
    # remainder
    rt = _flatten_add(inr[0].value)
    if acc not in rt or len(rt) != 2:
        R.bad.append(('lane-shape', 'remainder statement is not acc += lane'))
        return R
    rt.remove(acc)
    lane = rt[0]
    if rem_index is not None:
        reads = _index_reads(lane)
        if not reads or not peq(poly(reads[0][2]), rem_index):
            R.bad.append(('remainder-range', 'remainder summand does not read at the loop variable'))
            rsh = None
        else:
            rsh, foreign = _shape(lane, rem_index)
            if foreign:
                R.bad.append(('elementwise', 'remainder summand mixes indices'))
    else:
        # iterator over the elements themselves
        def f2(n):
            if n == rem['item']:
                return ('elem', rem_elem_of)
            return n
        rsh = map_term(map_term(lane, f2), _comm)
    if len(shapes) == 1 and next(iter(shapes)) == rsh:
        R.ok.append(('lane-shape', 'all %d+1 summands have the form %s' % (W, show(rsh))))
    else:
        R.bad.append(('lane-shape', 'summands differ: %s vs remainder %s' % (' | '.join(sorted(show(x) for x in shapes)), show(rsh) if rsh else None)))
    if not any(a == 'elementwise' for a, _ in R.bad):
        R.ok.append(('elementwise', 'every summand reads its inputs at one common index'))
    R.shape = rsh
    rets = f.return_values()
    if rets != [acc]:
        R.bad.append(('buffer-len', 'returned value is not the accumulator'))
    return R
