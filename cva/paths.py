"""Path exploration of a MIR body under an evaluator of branch conditions (used by the
equality-partition domain of C12 and by the mode-dispatch reachability rule of C16).

explore(func, ev) enumerates the feasible acyclic paths from the entry block:
  * at a `switch`, ev.value(func, term) gives the discriminant (bool / int) or None;
    None on the discriminant of an Iterator::next result means "skip the loop" (exit edge only);
    None elsewhere explores every successor (the path is marked `fuzzy`);
  * at an `assert` terminator, False -> panic outcome, None/True -> continue;
  * at a call, ev.call(func, callsite) may return 'panic' (callee must panic), or None;
  * a diverging call / unreachable ends the path with outcome 'panic'.
Outcomes: list of dicts {kind: 'return'|'panic', blocks: [...], fuzzy: bool, ret: term|None, bb}.
"""
from .ir import tag, is_next_call, is_panic_path


class Undecided(Exception):
    pass


def explore(f, ev, max_paths=4000):
    body = f.body
    out = []
    stack = [(0, [], False)]
    npaths = 0
    while stack:
        bb, trail, fuzzy = stack.pop()
        # follow straight-line
        while True:
            if bb in trail:
                # loop back-edge: should not happen since loops are skipped; abandon path
                out.append({'kind': 'loop', 'blocks': trail + [bb], 'fuzzy': True, 'ret': None, 'bb': bb})
                break
            trail = trail + [bb]
            try:
                ev.trail = trail          # path-sensitive evaluators read multi-definition locals along the trail
            except Exception:
                pass
            blk = body.blocks[bb]
            t = blk.term
            k = t.kind
            if k == 'return':
                out.append({'kind': 'return', 'blocks': trail, 'fuzzy': fuzzy, 'ret': _ret_on_path(f, trail), 'bb': bb})
                break
            if k in ('unreachable', 'resume', 'terminate'):
                out.append({'kind': 'panic', 'blocks': trail, 'fuzzy': fuzzy, 'ret': None, 'bb': bb})
                break
            if k in ('goto', 'drop'):
                bb = t.target
                continue
            if k == 'assert':
                v = ev.value(f, f.operand_term(t.cond))
                if v is not None and bool(v) != bool(t.expected):
                    out.append({'kind': 'panic', 'blocks': trail, 'fuzzy': fuzzy, 'ret': None, 'bb': bb})
                    break
                bb = t.target
                continue
            if k == 'call':
                if t.target is None:
                    out.append({'kind': 'panic', 'blocks': trail, 'fuzzy': fuzzy, 'ret': None, 'bb': bb})
                    break
                fn = t.callee
                if fn is not None and is_panic_path(fn.path):
                    out.append({'kind': 'panic', 'blocks': trail, 'fuzzy': fuzzy, 'ret': None, 'bb': bb})
                    break
                r = ev.call(f, bb, t)
                if r == 'panic':
                    out.append({'kind': 'panic', 'blocks': trail, 'fuzzy': fuzzy, 'ret': None, 'bb': bb, 'in_callee': True})
                    break
                bb = t.target
                continue
            if k == 'switch':
                d = f.operand_term(t.discr)
                v = ev.value(f, d)
                if v is None:
                    if tag(d) == 'discr' and tag(d[1]) == 'call' and is_next_call(d[1][1]):
                        # skip the loop: take the `None` arm
                        tgt = None
                        for val, tg in t.targets:
                            if val == 0:
                                tgt = tg
                        bb = tgt if tgt is not None else t.otherwise
                        continue
                    succs = []
                    for val, tg in t.targets:
                        if tg not in succs:
                            succs.append(tg)
                    if t.otherwise not in succs:
                        succs.append(t.otherwise)
                    # `otherwise` of a discriminant switch is usually `unreachable`
                    succs = [s for s in succs if body.blocks[s].term.kind != 'unreachable' or len(succs) == 1]
                    for s in succs[1:]:
                        stack.append((s, trail, True))
                        npaths += 1
                    fuzzy = True
                    bb = succs[0]
                    if npaths > max_paths:
                        raise Undecided('too many paths')
                    continue
                iv = int(v)
                tgt = None
                for val, tg in t.targets:
                    if val == iv:
                        tgt = tg
                bb = tgt if tgt is not None else t.otherwise
                continue
            out.append({'kind': 'panic', 'blocks': trail, 'fuzzy': True, 'ret': None, 'bb': bb})
            break
    return out


def _ret_on_path(f, trail):
    """the term assigned to _0 on this path (last definition along the trail)"""
    body = f.body
    last = None
    tset = trail
    for bb in tset:
        blk = body.blocks[bb]
        for s in blk.stmts:
            if s.kind == 'assign' and s.place.is_local() and s.place.local == 0:
                last = f.rvalue_term(s.rv, bb)
        t = blk.term
        if t.kind == 'call' and t.dest.is_local() and t.dest.local == 0:
            last = f.call_term(t, bb)
    return last
