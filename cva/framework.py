"""Check framework: obligations, known findings, evidence files, CLI plumbing."""
import json
import os
import re
import subprocess
import sys
import tempfile
import time

VERIF = os.path.dirname(os.path.dirname(os.path.abspath(__file__)))
REPO = os.environ.get('CVA_REPO', '/repo')
DRIVER = os.path.join(VERIF, 'driver', 'target', 'debug', 'compute-mirdump')


class Obligation:
    __slots__ = ('rule', 'key', 'status', 'site', 'detail', 'kind')

    def __init__(self, rule, key, status, site=None, detail=None, kind='proof'):
        self.rule = rule
        self.key = key
        self.status = status      # ok | viol | undecided | info
        self.site = site
        self.detail = detail
        self.kind = kind          # proof | refute


class Report:
    """collects obligations for one property"""

    def __init__(self, prop):
        self.prop = prop
        self.obs = []
        self.floors = {}          # rule -> (min_instances, description)
        self.analysed = set()     # body keys looked at
        self.notes = []
        self.samples = []
        self.trusted = []
        self.assumptions = []

    def _dup(self, key, status):
        for o in self.obs:
            if o.key == key and o.status == status:
                return True
        return False

    def ok(self, rule, key, detail=None, site=None):
        if not self._dup(key, 'ok'):
            self.obs.append(Obligation(rule, key, 'ok', site, detail))

    def viol(self, rule, key, detail, site=None):
        if not self._dup(key, 'viol'):
            self.obs.append(Obligation(rule, key, 'viol', site, detail))

    def undecided(self, rule, key, detail, site=None, proof=True):
        """proof rules fail closed on undecided; refutation rules only record it"""
        self.obs.append(Obligation(rule, key, 'undecided', site, detail, 'proof' if proof else 'refute'))

    def info(self, rule, key, detail, site=None):
        self.obs.append(Obligation(rule, key, 'info', site, detail))

    def floor(self, rule, n, what=''):
        self.floors[rule] = (n, what)

    def touch(self, *keys):
        for k in keys:
            if k:
                self.analysed.add(k)

    def sample(self, s):
        if len(self.samples) < 40:
            self.samples.append(s)

    def count(self, rule, statuses=('ok', 'viol', 'undecided')):
        return sum(1 for o in self.obs if o.rule == rule and o.status in statuses)


def site_of(body_or_span):
    if body_or_span is None:
        return None
    if isinstance(body_or_span, str):
        s = body_or_span.rstrip('!')
        m = re.match(r'(.*?):(\d+):', s)
        return '%s:%s' % (m.group(1), m.group(2)) if m else s
    return site_of(body_or_span.span)


def safe_name(key):
    return re.sub(r'[^A-Za-z0-9_.-]+', '_', key)[:150]


# ----------------------------------------------------------------------------- PDB build

def build_pdb(repo=None, keep=None):
    """dump the PDB of repo's working tree into a fresh temp dir (outside /verif and /repo);
    returns path to pdb.json inside a temp dir that the caller removes (or keep=path to copy to)."""
    repo = repo or REPO
    if not os.path.exists(DRIVER):
        r = subprocess.run('cd %s/driver && CARGO_NET_OFFLINE=true cargo build --offline' % VERIF,
                           shell=True, capture_output=True, text=True)
        if r.returncode != 0:
            sys.stderr.write(r.stdout + r.stderr)
            raise SystemExit(2)
    tmp = tempfile.mkdtemp(prefix='cva-')
    out = os.path.join(tmp, 'pdb.json')
    sysroot = subprocess.run(['rustc', '+nightly', '--print', 'sysroot'], capture_output=True, text=True).stdout.strip()
    env = dict(os.environ)
    env.update({
        'LD_LIBRARY_PATH': sysroot + '/lib' + (':' + env['LD_LIBRARY_PATH'] if env.get('LD_LIBRARY_PATH') else ''),
        'RUSTFLAGS': '-Zmir-opt-level=0 -Awarnings -Coverflow-checks=off -Cdebug-assertions=off',
        'RUSTC_WORKSPACE_WRAPPER': DRIVER,
        'MIRDUMP_OUT': out,
        'MIRDUMP_CRATE': 'compute',
        'CARGO_TARGET_DIR': os.path.join(tmp, 'target'),
        'CARGO_NET_OFFLINE': 'true',
    })
    env.pop('RUSTC_WRAPPER', None)
    r = subprocess.run(['cargo', '+nightly', 'check', '--offline', '--lib'], cwd=repo, env=env,
                       capture_output=True, text=True)
    # the target dir is no longer needed
    subprocess.run(['rm', '-rf', os.path.join(tmp, 'target')])
    if r.returncode != 0 or not os.path.exists(out) or os.path.getsize(out) == 0:
        sys.stderr.write(r.stdout[-4000:] + r.stderr[-8000:])
        subprocess.run(['rm', '-rf', tmp])
        sys.stderr.write('\ncva: cannot build /repo under the MIR dumper (exit 2: cannot decide)\n')
        raise SystemExit(2)
    return tmp, out


# ----------------------------------------------------------------------------- known findings

def load_known():
    p = os.path.join(VERIF, 'known_findings.json')
    if not os.path.exists(p):
        return {'findings': [], 'fixed': []}
    with open(p) as f:
        return json.load(f)


# ----------------------------------------------------------------------------- finishing a run

def finish(report, tier, t0, level='other', explanation='', extra=None, exhaustive=False):
    prop = report.prop
    known = load_known()
    known_keys = {(k['property'], k['key']): k for k in known.get('findings', [])}
    evdir = os.environ.get('CVA_EVIDENCE_DIR') or os.path.join(VERIF, 'evidence')
    os.makedirs(evdir, exist_ok=True)
    replay_dir = os.path.join(evdir, prop + '.replay')
    subprocess.run(['rm', '-rf', replay_dir])
    os.makedirs(replay_dir, exist_ok=True)

    # floors: fail closed
    per_rule = {}
    for o in report.obs:
        d = per_rule.setdefault(o.rule, {'obligations': 0, 'discharged': 0, 'violated': 0, 'undecided': 0, 'info': 0})
        if o.status == 'info':
            d['info'] += 1
            continue
        d['obligations'] += 1
        if o.status == 'ok':
            d['discharged'] += 1
        elif o.status == 'viol':
            d['violated'] += 1
        else:
            d['undecided'] += 1
    floor_obs = []
    for rule, (n, what) in report.floors.items():
        got = per_rule.get(rule, {}).get('obligations', 0)
        per_rule.setdefault(rule, {'obligations': 0, 'discharged': 0, 'violated': 0, 'undecided': 0, 'info': 0})['floor'] = n
        if got < n:
            floor_obs.append(Obligation('coverage-floor', 'coverage-floor:%s' % rule, 'viol', None,
                                        'rule %s found %d instances, floor is %d (%s): an anchor disappeared '
                                        'or an idiom is no longer recognised' % (rule, got, n, what)))
    allobs = report.obs + floor_obs

    violations = []
    known_hits = []
    undecided_proof = []
    for o in allobs:
        # Only a positively established contradiction is an alarm.  An obligation the engines could not decide (idiom outside the
        # recognised family, closed form not extracted) is reported as NOT-DECIDED and recorded in the evidence, but it is not a
        # violation: behaviour-preserving rewrites must not raise an alarm.  Anchors that disappear altogether still fail the
        # coverage floor below (undecided instances count towards the floor: the anchor was found).
        bad = o.status == 'viol'
        if o.status == 'undecided' and o.kind == 'proof':
            undecided_proof.append(o)
        if not bad:
            continue
        k = (prop, o.key)
        if k in known_keys and o.status == 'viol':
            known_hits.append((o, known_keys[k]))
        else:
            violations.append(o)

    lines = []
    for o, kf in known_hits:
        lines.append('KNOWN-FINDING: property=%s %s [%s] %s' % (prop, kf.get('what', o.key), o.key, o.site or ''))
    for o in violations:
        rp = os.path.join(replay_dir, safe_name(o.key) + '.json')
        with open(rp, 'w') as f:
            json.dump({'property': prop, 'rule': o.rule, 'key': o.key, 'status': o.status, 'site': o.site,
                       'detail': o.detail,
                       'replay': './check %s --explain %s' % (prop, json.dumps(o.key))}, f, indent=1)
        lines.append('VIOLATION property=%s replay=%s' % (prop, rp))
        lines.append('  rule=%s key=%s site=%s' % (o.rule, o.key, o.site))
        lines.append('  violated: %s' % o.detail)
    for o in undecided_proof[:20]:
        lines.append('NOT-DECIDED property=%s rule=%s key=%s: %s' % (prop, o.rule, o.key, (o.detail or '')[:160]))

    n_obl = sum(d['obligations'] for d in per_rule.values())
    n_dis = sum(d['discharged'] for d in per_rule.values())
    distinct = len({o.key for o in report.obs if o.status in ('ok', 'viol', 'undecided')})
    cov = {
        'explanation': explanation,
        'obligations': n_obl,
        'discharged': n_dis,
        'evaluations': n_obl,
        'distinct_nontrivial': distinct,
        'rule': 'one evaluation = one rule instance (obligation) decided by an engine on the MIR of /repo; '
                'distinct = distinct obligation keys (rule:item:instance, no line numbers)',
        'rules': per_rule,
        'bodies_analysed': len(report.analysed),
        'bodies_sample': sorted(report.analysed)[:25],
        'samples': report.samples[:40] or ['(no obligations)'],
        'checker_cmd': './check %s --tier %s' % (prop, tier),
        'trusted_base': ['rustc nightly MIR (-Zmir-opt-level=0) as dumped by driver/', 'cva std-callee summaries'] + report.trusted,
        'known_findings_matched': [o.key for o, _ in known_hits],
        'undecided_proof_obligations': [{'rule': o.rule, 'key': o.key, 'why': (o.detail or '')[:200]} for o in undecided_proof][:80],
        'undecided_refutation_obligations': [o.key for o in report.obs if o.status == 'undecided' and o.kind == 'refute'][:50],
        'analysed_configuration': 'default-feature library target only (cfg(test), benches, examples and the blas/lapack features are not compiled and not part of any verdict)',
        'exhaustive': bool(exhaustive),
        'notes': report.notes,
    }
    if extra:
        cov.update(extra)
    ev = {
        'property_id': prop,
        'tier': tier,
        'seed': int(os.environ.get('VERIF_SEED', '0') or 0),
        'level': level,
        'coverage': cov,
        'assumptions': report.assumptions,
        'wall_s': round(time.time() - t0, 2),
        'violations': len(violations),
    }
    with open(os.path.join(evdir, prop + '.json'), 'w') as f:
        json.dump(ev, f, indent=1, default=str)
    for l in lines:
        print(l)
    print('%s: %d obligations, %d discharged, %d violated (%d known), %d bodies analysed, %.1fs' % (
        prop, n_obl, n_dis, len(violations) + len(known_hits), len(known_hits), len(report.analysed), time.time() - t0))
    return 1 if violations else 0
