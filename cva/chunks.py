"""Coverage lint for exact chunking: `x.chunks_exact(k)` / `chunks_exact_mut(k)` visits only the first len - len % k elements.
Unless the remainder is consumed (`remainder()` / `into_remainder()` on that iterator) or len % k == 0 is established by a
dominating guard, the tail elements are never processed -- a bulk result then contains unprocessed (initial) values."""
from .ir import tag, show, short, subterms
from .framework import site_of


def check_chunk_remainder(prog, rep, rule, select):
    n = 0
    for k in sorted(prog.pdb.bodies):
        if not select(k):
            continue
        f = prog.func(k)
        calls = f.calls()
        chunkers = [c for c in calls if c.path and short(c.path) in ('chunks_exact', 'chunks_exact_mut')]
        if not chunkers:
            continue
        rep.touch(k)
        for c in chunkers:
            n += 1
            obj, size = c.args[0], c.args[1]
            key = '%s:%s:%s' % (rule, k, show(obj)[:40])
            term = ('call', c.path, c.args, None)
            consumed = False
            for d in calls:
                if d.path and short(d.path) in ('remainder', 'into_remainder'):
                    # receiver is (a view of) a chunk iterator over the same object
                    if any(tag(z) == 'call' and short(z[1]) in ('chunks_exact', 'chunks_exact_mut') and z[2][0] == obj for a in d.args for z in subterms(a)):
                        consumed = True
            divisible = False
            for cn, v in f.guards().get(c.bb, []):
                if tag(cn) == 'bin' and cn[1] == 'Eq' and v is True:
                    for a, b in ((cn[2], cn[3]), (cn[3], cn[2])):
                        if tag(b) == 'const' and b[2] == 0 and tag(a) == 'bin' and a[1] == 'Rem' and a[3] == size:
                            divisible = True
            if consumed:
                rep.ok(rule, key, 'remainder of the exact chunking is consumed')
            elif divisible:
                rep.ok(rule, key, 'length is asserted to be a multiple of the chunk size')
            else:
                rep.viol(rule, key, '%s(%s) drops the last len %% %s elements and nothing consumes the remainder: those elements keep their initial '
                         'value (for a bulk sampler: the last draw of an odd-length request is the constant lower bound)' % (short(c.path), show(obj)[:40], show(size)),
                         site_of(c.span) or site_of(f.body))
    return n
