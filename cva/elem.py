"""E-WIRE / element abstraction.

Every array-like object (slice, Vec<f64>, Vector, Matrix) is abstracted by the *set of
scalar expressions its elements can hold*; indices are erased.  Scalars are abstracted by
the set of expressions they can hold.  Expressions are trees over symbols for the entry
function's parameters, so the result for an operator impl reads e.g. {Sub(E(self), E(other))}.

AV (abstract value) is one of
   frozenset of expr            scalar or "every element is one of these"
   ('tuple', (AV, ...))         tuples (zip / enumerate items, closure argument packs)
expr:
   ('sym', name)                element of / value of an entry parameter
   ('c', value)                 f64 literal
   ('int',)                     any integer / bool / non-f64 scalar (opaque)
   ('b', op, x, y)              f64 binary op, operands in order
   ('neg', x)
   ('m', name, x, extra...)     f64 method
   ('cast', x)                  int -> float cast
   ('fld', x, k)                scalar field k of a struct-valued symbol
   ('red', kind, frozenset)     reduction (sum / product / fold) over elements
   ('uninit',)                  contents of a fresh buffer (with_capacity + set_len)
   ('top', why)                 not understood (obligations touching it are undecided)
"""
from .ir import (tag, root, is_f64_method, f64_method_name, is_next_call, short, is_panic_path, show)
from .ir import subterms as subterms_

TOP_LIMIT = 64

INT = ('int',)
UNINIT = ('uninit',)


def top(why):
    return frozenset([('top', why)])


def has_top(av):
    if isinstance(av, tuple) and av and av[0] == 'tuple':
        return any(has_top(x) for x in av[1])
    for e in av:
        if _expr_has(e, 'top'):
            return True
    return False


def _expr_has(e, t):
    if not isinstance(e, tuple):
        return False
    if e and e[0] == t:
        return True
    for x in e[1:]:
        if isinstance(x, tuple) and _expr_has(x, t):
            return True
        if isinstance(x, frozenset):
            for y in x:
                if _expr_has(y, t):
                    return True
    return False


def top_reasons(av):
    out = set()

    def walk(e):
        if isinstance(e, frozenset):
            for y in e:
                walk(y)
            return
        if not isinstance(e, tuple):
            return
        if e and e[0] == 'top':
            out.add(e[1])
            return
        if e and e[0] == 'tuple' and len(e) == 2 and isinstance(e[1], tuple):
            for y in e[1]:
                walk(y)
            return
        for x in e[1:]:
            walk(x)
    walk(av)
    return out


def is_tuple(av):
    return isinstance(av, tuple) and len(av) == 2 and av[0] == 'tuple'


def flat(av):
    """a frozenset view (tuples are flattened by union)"""
    if is_tuple(av):
        out = frozenset()
        for x in av[1]:
            out |= flat(x)
        return out
    return av


def show_expr(e):
    if isinstance(e, frozenset):
        return '{' + ', '.join(sorted(show_expr(x) for x in e)) + '}'
    if not isinstance(e, tuple):
        return repr(e)
    k = e[0]
    if k == 'sym':
        return e[1]
    if k == 'c':
        return repr(e[1])
    if k == 'int':
        return 'int'
    if k == 'ci':
        return str(e[1])
    if k == 'len':
        return 'len(%s)' % e[1]
    if k == 'b':
        return '%s(%s, %s)' % (e[1], show_expr(e[2]), show_expr(e[3]))
    if k == 'neg':
        return 'Neg(%s)' % show_expr(e[1])
    if k == 'm':
        return '%s.%s(%s)' % (show_expr(e[2]), e[1], ', '.join(show_expr(x) for x in e[3:]))
    if k == 'cast':
        return 'float(%s)' % show_expr(e[1])
    if k == 'fld':
        return '%s.%s' % (show_expr(e[1]), e[2])
    if k == 'red':
        return '%s%s' % (e[1], show_expr(e[2]))
    if k == 'uninit':
        return 'uninit'
    if k == 'top':
        return 'TOP<%s>' % e[1]
    if k == 'tuple':
        return '(' + ', '.join(show_expr(x) for x in e[1]) + ')'
    if k == 'when':
        sym = {'Lt': '<', 'Le': '<=', 'Gt': '>', 'Ge': '>=', 'Eq': '==', 'Ne': '!='}
        cs = ' & '.join(('' if v else '!') + ('(%s in %r..=%r)' % (show_expr(c[3]), c[1], c[2]) if c[0] == 'in' else
                                              '(%s %s %s)' % (show_expr(c[2]), sym.get(c[1], c[1]), show_expr(c[3]))) for c, v in e[1])
        return '[%s if %s]' % (show_expr(e[2]), cs)
    return repr(e)


F64_TYS = ('f64', '&f64', '&mut f64')


def is_arrayish_ty(ty):
    if ty is None:
        return False
    t = ty.replace('&mut ', '').replace('&', '').strip()
    # lifetimes
    while t.startswith("'"):
        t = t.split(' ', 1)[1] if ' ' in t else t
    return t.startswith(('[f64', 'std::vec::Vec<f64', 'linalg::array::vec::Vector', 'linalg::array::matrix::Matrix'))


def strip_ref(ty):
    t = ty
    changed = True
    while changed:
        changed = False
        for p in ('&mut ', '&'):
            if t.startswith(p):
                t = t[len(p):]
                changed = True
        if t.startswith("'"):
            t = t.split(' ', 1)[1] if ' ' in t else t
            changed = True
    return t


# std callees that return (a view of / a copy of) their first argument's elements
ELEMS_OF_ARG0 = {
    'std::slice::<impl [T]>::to_vec', '<T as std::borrow::ToOwned>::to_owned',
    'std::slice::<impl std::borrow::ToOwned for [T]>::to_owned',
    '<std::vec::Vec<T, A> as std::clone::Clone>::clone', 'std::clone::Clone::clone',
    'core::slice::<impl [T]>::iter', 'core::slice::<impl [T]>::iter_mut',
    'core::slice::<impl [T]>::chunks', 'core::slice::<impl [T]>::chunks_mut',
    'core::slice::<impl [T]>::chunks_exact', 'core::slice::<impl [T]>::chunks_exact_mut',
    'core::slice::<impl [T]>::windows', 'core::slice::<impl [T]>::split_at', 'core::slice::<impl [T]>::split_at_mut',
    'std::slice::ChunksExactMut::<\'a, T>::into_remainder', 'std::slice::ChunksExact::<\'a, T>::remainder',
    'std::iter::Iterator::rev', 'std::iter::Iterator::take', 'std::iter::Iterator::skip',
    'std::iter::Iterator::collect', '<std::vec::Vec<T> as std::iter::FromIterator<T>>::from_iter',
    'std::iter::FromIterator::from_iter', 'std::iter::Iterator::flatten',
    'std::slice::<impl [T]>::repeat', 'std::convert::Into::into', 'std::convert::From::from',
    'std::option::Option::<T>::unwrap', 'std::result::Result::<T, E>::unwrap',
    'rayon::iter::from_par_iter::<impl rayon::iter::FromParallelIterator<T> for std::vec::Vec<T>>::from_par_iter',
    'subslice',
}

OPAQUE_FNS = {
    'functions::gamma::gamma': 'gamma', 'functions::gamma::ln_gamma': 'ln_gamma', 'functions::gamma::beta': 'beta', 'functions::gamma::digamma': 'digamma',
    'functions::statistical::erf': 'erf', 'functions::combinatorial::binom_coeff': 'binom_coeff',
    'functions::combinatorial::binom_coeff_alt': 'binom_coeff',
}

FRESH_EMPTY = {'std::vec::Vec::<T>::with_capacity', 'std::vec::Vec::<T>::new'}


class ElemEngine:
    def __init__(self, prog, ints=False, guarded=False, guard_locals=False, positions=False):
        self.prog = prog
        self.pdb = prog.pdb
        self.ints = ints          # keep integer arithmetic / integer fields symbolic (formula extraction) instead of the opaque INT
        self.guarded = guarded    # alternatives of several return sites carry the comparisons that select them: ('when', conds, e)
        self.positions = positions    # items of counting ranges are lo + ('pos',), the position in the sequence, instead of the opaque INT
        self.guard_locals = guard_locals    # likewise the alternatives of a local assigned in several branches (`let n = if c { a } else { b }`)
        self._memo = {}
        self._stack = []
        self._supp = ()
        self._active = {}
        self._override = {}
        import sys
        if sys.getrecursionlimit() < 20000:
            sys.setrecursionlimit(20000)
        self.unknown_callees = set()
        self.visited = set()

    # ------------------------------------------------------------------ public
    def result_of(self, key, arg_syms):
        """abstract value returned by body `key` when parameter i (1-based MIR local) holds arg_syms[i]
        (a dict local -> AV). Also returns the effects on &mut parameters: dict local -> AV stored."""
        f = self.prog.func(key)
        env = Env(f, arg_syms, {})
        ret = self.ev_return(env)
        eff = {}
        for i in range(1, f.body.arg_count + 1):
            e = self.effects_on(env, ('arg', i, f.names.get(i)))
            if e is not None:
                eff[i] = e
        return ret, eff

    # ------------------------------------------------------------------ evaluation
    def ev_return(self, env):
        f = env.f
        self.visited.add(f.body.key)
        vals = f.return_values()
        out = None
        defs = f._defs.get(0, []) if self.guarded else []
        if len(defs) > 1 and len(defs) == len(vals):
            # piecewise value: each return site's alternatives are tagged with the comparisons that dominate the site
            for d in defs:
                t = f.rvalue_term(d[3], d[1]) if d[0] == 'assign' else f.call_term(d[2], d[1])
                av = self.ev(env, t)
                conds = self._guard_exprs(env, d[1])
                if conds and not is_tuple(av):
                    av = frozenset(e if (isinstance(e, tuple) and e and e[0] == 'top') else ('when', conds, e) for e in flat(av))
                out = av if out is None else join(out, av)
            return out if out is not None else frozenset()
        for v in vals:
            av = self.ev(env, v)
            out = av if out is None else join(out, av)
        if out is None:
            return frozenset()
        return out

    def _guard_exprs(self, env, bb):
        """the comparisons dominating bb whose operands have one closed form each: tuple of (('cmp', op, a, b), truth)"""
        out = []
        for c, v in env.f.guards().get(bb, []):
            while tag(c) == 'un' and c[1] == 'Not' and isinstance(v, bool):
                c, v = c[2], not v
            if tag(c) == 'call' and c[1].endswith('RangeInclusive::<Idx>::contains') and isinstance(v, bool) and len(c[2]) == 2 and \
                    tag(c[2][0]) == 'constx' and isinstance(c[2][0][2], str) and c[2][0][2].startswith('bytes:') and '<f64>' in str(c[2][0][1]):
                # `(lo..=hi).contains(&x)` with a constant range: a membership test selects the alternative
                import struct
                raw = bytes.fromhex(c[2][0][2][6:])
                xa = self.ev(env, c[2][1])
                if len(raw) >= 16 and not is_tuple(xa) and len(xa) == 1 and not has_top(xa):
                    lo_, hi_ = struct.unpack('<dd', raw[:16])
                    out.append((('in', lo_, hi_, next(iter(xa))), v))
                continue
            if tag(c) != 'bin' or c[1] not in ('Lt', 'Le', 'Gt', 'Ge', 'Eq', 'Ne') or not isinstance(v, bool):
                continue
            a, b = self.ev(env, c[2]), self.ev(env, c[3])
            if is_tuple(a) or is_tuple(b) or len(a) != 1 or len(b) != 1 or has_top(a) or has_top(b):
                continue
            a0, b0 = next(iter(a)), next(iter(b))
            if a0 == INT or b0 == INT or _expr_has(a0, 'red') or _expr_has(b0, 'red') or _expr_has(a0, 'when') or _expr_has(b0, 'when'):
                continue
            out.append((('cmp', c[1], a0, b0), v))
        return tuple(out)

    def ev(self, env, t):
        key = (env.key(), t)
        mkey = (key, self._supp)
        if mkey in self._memo:
            return self._memo[mkey]
        if key in self._stack:
            if tag(t) == 'call' and t[3] is not None and not is_next_call(t[1]):
                return flat(self.ev_call(env, t))
            return frozenset([('top', 'recursion')])
        self._stack.append(key)
        try:
            r = self._ev(env, t)
        finally:
            self._stack.pop()
        if not is_tuple(r) and len(r) > TOP_LIMIT:
            r = top('too many alternatives')
        self._memo[mkey] = r
        return r

    def _ev(self, env, t):
        k = tag(t)
        f = env.f
        if k == 'arg':
            if t[1] in env.args:
                return env.args[t[1]]
            return frozenset([('sym', 'arg%d' % t[1])])
        if k == 'upvar':
            if t[1] in env.upvars:
                return env.upvars[t[1]]
            return top('free upvar %d in %s' % (t[1], f.body.key))
        if k == 'const':
            if t[1] == 'f64':
                return frozenset([('c', t[2])])
            if isinstance(t[2], int) and not isinstance(t[2], bool) and t[1] in ('i32', 'u32', 'i64', 'u64', 'usize', 'isize'):
                return frozenset([('ci', t[2])])
            return frozenset([INT])
        if k == 'constx':
            if t[3] is not None and t[3] in self.pdb.consts and self.pdb.consts[t[3]]['ty'] == 'f64':
                return frozenset([('c', self.pdb.const_value(t[3]))])
            if t[1] == 'f64':
                return frozenset([('sym', 'const:' + str(t[2]))])
            return frozenset([INT])
        if k == 'bin':
            if t[4] in ('f64',) and t[1] in ('Add', 'Sub', 'Mul', 'Div', 'Rem'):
                a = flat(self.ev(env, t[2]))
                b = flat(self.ev(env, t[3]))
                return frozenset(('b', t[1], x, y) for x in a for y in b)
            if self.ints and t[1] in ('Add', 'Sub', 'Mul', 'Div', 'Rem') and t[4] in ('usize', 'u64', 'i64', 'i32', 'u32', 'isize'):
                a = flat(self.ev(env, t[2]))
                b = flat(self.ev(env, t[3]))
                if a and b and INT not in a and INT not in b and not has_top(a) and not has_top(b):
                    return frozenset(('b', 'I' + t[1], x, y) for x in a for y in b)
            return frozenset([INT])
        if k == 'un':
            if t[3] == 'f64' and t[1] == 'Neg':
                return frozenset(('neg', x) for x in flat(self.ev(env, t[2])))
            return frozenset([INT])
        if k == 'cast':
            if t[1] == 'IntToFloat':
                inner = flat(self.ev(env, t[2]))
                if inner and all(e[0] in ('ci', 'len', 'sym', 'fld', 'cast') for e in inner):
                    return frozenset(('cast', e) for e in inner)
                if self.ints and inner and INT not in inner and not has_top(inner):
                    return frozenset(('cast', e) for e in inner)
                return frozenset([('cast', INT)])
            if t[1] == 'IntToInt':
                inner = flat(self.ev(env, t[2]))
                if inner and all(e[0] in ('ci', 'len', 'sym', 'fld') for e in inner):
                    return inner
                if self.ints and inner and INT not in inner and not has_top(inner):
                    return inner
                return frozenset([INT])
            if t[1] == 'FloatToInt' and self.ints:
                inner = flat(self.ev(env, t[2]))
                if inner and INT not in inner and not has_top(inner):
                    return frozenset(('f2i', e) for e in inner)
                return frozenset([INT])
            if t[1] == 'FloatToFloat':
                return self.ev(env, t[2])
            return frozenset([INT])
        if k == 'len':
            c = self.content(env, t[1])
            if len(c) == 1 and next(iter(c))[0] == 'sym':
                return frozenset([('len', next(iter(c))[1])])
            return frozenset([INT])
        if k == 'discr':
            return frozenset([INT])
        if k == 'index':
            return self.content(env, t[1])
        if k == 'field':
            ty = t[3]
            base = t[1]
            bav = None
            if ty is not None and (is_arrayish_ty(ty)):
                return self.content(env, t)
            if ty is not None and strip_ref(ty) == 'f64':
                # scalar field of a struct: symbolic
                bav = self.ev(env, base)
                if is_tuple(bav):
                    if t[2] < len(bav[1]):
                        return bav[1][t[2]]
                    return top('tuple field out of range')
                return frozenset(('fld', x, t[2]) for x in bav)
            # tuple component?
            bav = self.ev(env, base)
            if is_tuple(bav):
                if t[2] < len(bav[1]):
                    return bav[1][t[2]]
                return top('tuple field out of range')
            if ty is not None and strip_ref(ty) in ('usize', 'i32', 'u32', 'i64', 'u64', 'bool', 'isize'):
                if self.ints and strip_ref(ty) != 'bool' and not is_tuple(bav):
                    return frozenset(('fld', x, t[2]) for x in flat(bav))
                return frozenset([INT])
            if ty is not None and strip_ref(ty) in self.pdb.adts and not is_arrayish_ty(ty):
                # a struct-valued field (e.g. an embedded sampler): keep it as a structured symbol
                return frozenset(('fld', x, t[2]) for x in flat(bav))
            return bav
        if k == 'downcast':
            return self.ev(env, t[1])
        if k == 'agg':
            kind = t[1]
            if kind == 'tuple':
                return ('tuple', tuple(self.ev(env, x) for x in t[3]))
            if kind == 'array':
                out = frozenset()
                for x in t[3]:
                    out |= flat(self.ev(env, x))
                return out
            if kind == 'adt':
                p = t[2]
                if p in ('linalg::array::vec::Vector', 'linalg::array::matrix::Matrix'):
                    return self.content(env, t)
                if p.startswith('std::option::Option') or p.startswith('std::result::Result'):
                    return self.ev(env, t[3][0]) if t[3] else frozenset([INT])
                # other struct literal: tuple-like
                return ('tuple', tuple(self.ev(env, x) for x in t[3]))
            if kind == 'closure':
                return frozenset([('sym', 'closure')])
            return top('aggregate ' + str(kind))
        if k in ('range', 'rangeincl'):
            if self.positions and self.ints:
                lo = flat(self.ev(env, it[1]))
                if len(lo) == 1 and INT not in lo and not has_top(lo):
                    lo0 = next(iter(lo))
                    return frozenset([('pos',) if lo0 == ('ci', 0) else ('b', 'IAdd', lo0, ('pos',))])
            return frozenset([INT])
        if k == 'item':
            return self.item_value(env, t[2])
        if k == 'repeat':
            return self.ev(env, t[1])
        if k == 'local':
            return self.local_value(env, t)
        if k == 'fnptr':
            return frozenset([('sym', 'fn')])
        if k == 'call':
            if t[3] is not None and not is_next_call(t[1]):
                st = self.stored_into(env, t)
                if st is not None:
                    return st
            return self.ev_call(env, t)
        return top('term ' + str(k))

    # ------------------------------------------------------------------ iterators
    def item_value(self, env, it):
        """abstract value of the items produced by iterator term `it`"""
        k = tag(it)
        if k in ('range', 'rangeincl'):
            if self.positions and self.ints:
                lo = flat(self.ev(env, it[1]))
                if len(lo) == 1 and INT not in lo and not has_top(lo):
                    lo0 = next(iter(lo))
                    return frozenset([('pos',) if lo0 == ('ci', 0) else ('b', 'IAdd', lo0, ('pos',))])
            return frozenset([INT])
        if k == 'call':
            p = it[1]
            s = short(p)
            a = it[2]
            if s == 'zip':
                return ('tuple', (self.item_value(env, a[0]), self.item_value(env, a[1])))
            if s == 'enumerate':
                return ('tuple', (frozenset([INT]), self.item_value(env, a[0])))
            if s == 'chain' and len(a) == 2:
                x, y = self.item_value(env, a[0]), self.item_value(env, a[1])
                return join(x, y)
            if s in ('rev', 'take', 'skip', 'iter', 'iter_mut', 'chunks', 'chunks_mut', 'flatten', 'copied', 'cloned',
                     'into_iter', 'by_ref', 'chunks_exact', 'chunks_exact_mut', 'into_remainder', 'remainder', 'windows', 'step_by'):
                return self.item_value(env, a[0])
            if s == 'map':
                return self.apply_closure(env, a[1], [self.item_value(env, a[0])])
            if s == 'scan':
                return top('scan iterator')
            if p in self.pdb.bodies:
                # in-crate into_iter impls (Vector / Matrix): items are elements (rows for Matrix)
                return self.content(env, it)
        # an array-like object iterated directly
        return self.content(env, it)

    def iter_object(self, it, path=()):
        """the object term whose elements a (mutable) iterator item component refers to"""
        k = tag(it)
        if k == 'call':
            s = short(it[1])
            a = it[2]
            if s == 'zip':
                if path and path[0] in (0, 1):
                    return self.iter_object(a[path[0]], path[1:])
                return None
            if s == 'enumerate':
                if path and path[0] == 1:
                    return self.iter_object(a[0], path[1:])
                return None
            if s in ('rev', 'take', 'skip', 'iter', 'iter_mut', 'chunks', 'chunks_mut', 'into_iter', 'by_ref', 'chunks_exact', 'chunks_exact_mut',
                     'into_remainder', 'remainder'):
                return self.iter_object(a[0], path)
            if it[1] in self.pdb.bodies and a and s in ('into_iter', 'iter', 'iter_mut'):
                return self.iter_object(a[0], path)
            if it[1] in self.pdb.bodies and s in ('index', 'index_mut'):
                return it
            if s in ('deref', 'deref_mut', 'as_mut_slice', 'as_slice', 'as_mut', 'as_ref', 'borrow_mut', 'borrow') and a:
                return self.iter_object(a[0], path)
            if it[3] is not None and not path:
                return it          # an owned buffer built by a call (vec![..], with_capacity, to_vec ..): the object itself
            return None
        if k == 'index' and tag(it[2]) == 'range' and not path:
            return self.iter_object(it[1], path)      # a sub-slice x[a..b] views x
        if k == 'item' and not path:
            return self.iter_object(it[2], ())        # a row / chunk handed out by an outer loop views the outer object
        return it

    # ------------------------------------------------------------------ closures
    def closure_of(self, env, cterm):
        """(closure body key, upvar AVs) for a term that evaluates to a closure aggregate"""
        if tag(cterm) == 'agg' and cterm[1] == 'closure':
            ups = {i: self.ev(env, x) for i, x in enumerate(cterm[3])}
            return cterm[2], ups
        if tag(cterm) == 'fnptr':
            return cterm[1], {}
        # a closure passed through a parameter: look in env.closures
        if tag(cterm) == 'arg' and cterm[1] in env.closures:
            return env.closures[cterm[1]]
        if tag(cterm) == 'upvar' and ('up', cterm[1]) in env.closures:
            return env.closures[('up', cterm[1])]
        return None, None

    def apply_closure(self, env, cterm, arg_avs):
        key, ups = self.closure_of(env, cterm)
        if key is None or key not in self.pdb.bodies:
            if key is not None and is_f64_method(key):
                return frozenset(('m', f64_method_name(key), x) for x in flat(arg_avs[0]))
            return top('unknown closure ' + show(cterm))
        g = self.prog.func(key)
        if g.body.kind == 'closure':
            args = {i + 2: av for i, av in enumerate(arg_avs)}
        else:
            args = {i + 1: av for i, av in enumerate(arg_avs)}
        cenv = Env(g, args, ups)
        self._inherit_closures(env, cterm, cenv)
        return self.ev_return(cenv)

    def _inherit_closures(self, env, cterm, cenv):
        # closures captured as upvars of closures
        if tag(cterm) == 'agg' and cterm[1] == 'closure':
            for i, x in enumerate(cterm[3]):
                k, u = self.closure_of(env, x)
                if k is not None:
                    cenv.closures[('up', i)] = (k, u)

    def closure_effects(self, env, cterm, arg_avs):
        """values a closure stores through its parameters: list of (param_path, AV) where param_path =
        (param index, tuple-field path...)"""
        key, ups = self.closure_of(env, cterm)
        if key is None or key not in self.pdb.bodies:
            return None
        g = self.prog.func(key)
        off = 2 if g.body.kind == 'closure' else 1
        args = {i + off: av for i, av in enumerate(arg_avs)}
        cenv = Env(g, args, ups)
        self._inherit_closures(env, cterm, cenv)
        self.visited.add(key)
        out = []
        for s in g.stores():
            tgt = s.target
            path = []
            x = tgt
            while tag(x) in ('field', 'index', 'downcast'):
                if tag(x) == 'field':
                    path.append(x[2])
                x = x[1]
            if tag(x) == 'arg' and x[1] >= off:
                out.append(((x[1] - off,) + tuple(reversed(path)), self.ev(cenv, s.value)))
            elif tag(x) == 'upvar':
                out.append((('upvar', x[1]) + tuple(reversed(path)), self.ev(cenv, s.value)))
        return out

    # ------------------------------------------------------------------ calls
    def ev_call(self, env, t):
        p = t[1]
        a = t[2]
        if is_f64_method(p):
            name = f64_method_name(p)
            xs = flat(self.ev(env, a[0]))
            rest = []
            for y in a[1:]:
                rest.append(flat(self.ev(env, y)))
            out = set()
            if not rest:
                return frozenset(('m', name, x) for x in xs)
            if len(rest) == 1:
                return frozenset(('m', name, x, y) for x in xs for y in rest[0])
            return top('f64 method arity')
        if p in OPAQUE_FNS:
            args = [flat(self.ev(env, y)) for y in a]
            out = set()
            if len(args) == 1:
                return frozenset(('m', OPAQUE_FNS[p], x) for x in args[0])
            if len(args) == 2:
                return frozenset(('m', OPAQUE_FNS[p], x, y) for x in args[0] for y in args[1])
            return top('opaque fn arity')
        if p in self.pdb.bodies:
            if len(self._stack) > 400:
                return top('call nesting too deep at ' + p)
            return self.ev_incrate(env, t)
        s = short(p)
        if p in ELEMS_OF_ARG0 or p.endswith('::to_owned') or p.endswith('::clone'):
            return self.content(env, a[0]) if a else frozenset()
        if p == '<T as std::convert::Into<U>>::into' or p == '<T as std::convert::From<T>>::from':
            return self.content(env, a[0])
        if p in FRESH_EMPTY:
            return frozenset([UNINIT])
        if p == 'std::vec::from_elem':
            return self.ev(env, a[0])
        if s == 'map' and p.startswith('std::iter::'):
            return self.item_value(env, t)
        if s in ('zip', 'enumerate', 'rev', 'take', 'skip', 'iter', 'iter_mut') and (p.startswith('std::iter::') or p.startswith('core::slice')):
            return self.item_value(env, t)
        if s in ('sum', 'product') and p.startswith('std::iter::Iterator::'):
            return frozenset([('red', s, flat(self.item_value(env, a[0])))])
        if s == 'fold' and 'Iterator' in p:
            init = flat(self.ev(env, a[1]))
            item = self.item_value(env, a[0])
            ck, cups = self.closure_of(env, a[2])
            cg = self.prog.func(ck) if ck is not None and ck in self.pdb.bodies else None
            if cg is not None:
                off = 2 if cg.body.kind == 'closure' else 1
                aty = cg.body.local_ty(off)
                if aty is not None and is_arrayish_ty(aty.lstrip('&').replace('mut ', '').strip()):
                    # a fold whose accumulator is a collection handed from step to step: the result holds the initial elements plus
                    # whatever the step stores into the accumulator; the step must hand the accumulator on
                    acc = ('arg', off, cg.names.get(off))
                    rv = cg.return_values()
                    if len(rv) != 1 or self.canon(rv[0]) != acc:
                        return top('fold step does not return its accumulator')
                    cenv = Env(cg, {off: init, off + 1: item}, cups or {})
                    self._inherit_closures(env, a[2], cenv)
                    self.visited.add(ck)
                    st = self.stored_into(cenv, acc)
                    return init if st is None else (init | flat(st))
            step = self.apply_closure(env, a[2], [frozenset([('sym', 'acc')]), item])
            return frozenset([('red', 'fold', flat(step) | init)])
        if p == 'std::ops::Fn::call' or p == 'std::ops::FnMut::call_mut' or p == 'std::ops::FnOnce::call_once':
            args_av = self.ev(env, a[1])
            arg_list = list(args_av[1]) if is_tuple(args_av) else [args_av]
            return self.apply_closure(env, a[0], arg_list)
        if p == 'indirect':
            return top('indirect call')
        if p.endswith('as std::ops::Try>::branch'):
            return self.ev(env, a[0])
        if 'std::ops::FromResidual' in p:
            return frozenset()
        if p in ('std::cmp::min', 'std::cmp::max', 'std::cmp::Ord::min', 'std::cmp::Ord::max', 'core::num::<impl i32>::abs',
                 'core::num::<impl i32>::pow', 'core::num::<impl u32>::pow', 'std::convert::TryInto::try_into',
                 'core::slice::<impl [T]>::contains', 'std::option::Option::<T>::is_some', 'std::option::Option::<T>::is_none',
                 'std::array::equality::<impl std::cmp::PartialEq<[U; N]> for [T; N]>::eq',
                 'std::array::equality::<impl std::cmp::PartialEq<[U; N]> for [T; N]>::ne',
                 'std::ops::RangeInclusive::<Idx>::contains',
                 'std::cmp::impls::<impl std::cmp::PartialOrd for f64>::partial_cmp'):
            return frozenset([INT])
        if p.startswith('alea::'):
            return frozenset([('sym', 'rng:' + p)])
        if p == 'approx_eq::rel_diff':
            xs = flat(self.ev(env, a[0]))
            ys = flat(self.ev(env, a[1]))
            return frozenset(('m', 'rel_diff', x, y) for x in xs for y in ys)
        if is_panic_path(p):
            return frozenset()
        if is_next_call(p):
            return self.item_value(env, a[0])
        if p in ('core::slice::<impl [T]>::split_at', 'core::slice::<impl [T]>::split_first'):
            c = self.content(env, a[0])
            return ('tuple', (c, c))
        if p == 'std::iter::Iterator::chain' and len(a) == 2:
            x, y = self.ev(env, a[0]), self.ev(env, a[1])
            if is_tuple(x) or is_tuple(y):
                return top('chain of tuple iterators')
            return flat(x) | flat(y)
        if p == 'std::iter::Iterator::unzip':
            it = self.item_value(env, a[0])
            if is_tuple(it):
                return it
            return top('unzip of non-tuple')
        if p == 'std::mem::swap' or s in ('set_len', 'push', 'extend', 'extend_from_slice', 'swap', 'reverse', 'sort_by',
                                          'copy_from_slice', 'for_each'):
            return frozenset([INT])
        self.unknown_callees.add(p)
        return top('std callee ' + p)

    def ev_incrate(self, env, t):
        p = t[1]
        g = self.prog.func(p)
        args = {}
        cl = {}
        targs = list(t[2])
        ups = {}
        if g.body.kind == 'closure' and len(targs) == 2:
            # direct call of a local closure `f(a, b)`: MIR passes (&f, (a, b)); the body sees the tuple untupled and its captures
            # through the closure value
            _, ups = self.closure_of(env, targs[0])
            if ups is None:
                return top('closure value not read at its call')
            if tag(targs[1]) == 'agg' and targs[1][1] == 'tuple':
                targs = [targs[0]] + list(targs[1][3])
            else:
                return top('closure call with a non-literal argument tuple')
        for i, x in enumerate(targs):
            args[i + 1] = self.ev_arg(env, x)
            ck, cu = self.closure_of(env, x)
            if ck is not None:
                cl[i + 1] = (ck, cu)
        genv = Env(g, args, ups or {})
        genv.closures.update(cl)
        if g.body.kind == 'closure' and len(t[2]) == 2:
            self._inherit_closures(env, t[2][0], genv)
        act = self._active.get(p, 0)
        if act >= 2:
            return top('recursive call of ' + p)
        self._active[p] = act + 1
        try:
            return self.ev_return(genv)
        finally:
            self._active[p] = act

    def ev_arg(self, env, x):
        """argument passing: arrays are passed by their content"""
        av = self.ev(env, x)
        return av

    # ------------------------------------------------------------------ objects
    def local_value(self, env, t):
        """a multi-def local: join of everything assigned to it (loop-carried values give ('top','recursion')
        only if they feed themselves through arithmetic; accumulators are summarised as reductions)"""
        f = env.f
        sts = [s for s in f.stores() if s.target == t]
        vals = [s.value for s in sts]
        if not vals:
            return top('local without defs ' + show(t))
        avs = []
        for st_, v in zip(sts, vals):
            key = (env.key(), ('localdef', t, v))
            if key in self._stack:
                continue
            self._stack.append(key)
            try:
                av = self.ev(env, v)
            finally:
                self._stack.pop()
            if self.guard_locals and len(vals) > 1 and not is_tuple(av):
                # the comparisons dominating this assignment are necessary for the local to hold this alternative
                conds = self._guard_exprs(env, st_.bb)
                if conds:
                    av = frozenset(e if (isinstance(e, tuple) and e and e[0] == 'top') else ('when', conds, e) for e in flat(av))
            avs.append(av)
        if not avs:
            return top('local defined only through itself ' + show(t))
        if any(is_tuple(a) for a in avs):
            n = max(len(a[1]) for a in avs if is_tuple(a))
            comps = []
            for i in range(n):
                c = frozenset()
                for a in avs:
                    if is_tuple(a) and i < len(a[1]):
                        x = a[1][i]
                        c = c | (flat(x) if not is_tuple(x) else top('nested tuple'))
                    else:
                        c = c | top('tuple/non-tuple join')
                comps.append(self._accumulate(c))
            return ('tuple', tuple(comps))
        out = frozenset()
        for a in avs:
            out |= a
        return self._accumulate(out)

    def _accumulate(self, out):
        """x = x op e  ->  reduction: alternatives that refer to the local itself (recursion) become `acc`"""
        acc = frozenset(e for e in out if _expr_has(e, 'top') and top_reasons(frozenset([e])) == {'recursion'})
        if acc:
            rest = out - acc
            return frozenset([('red', 'acc', rest | frozenset(strip_rec(e) for e in acc))])
        return out

    def content(self, env, obj):
        """element expressions of an array-like object term"""
        f = env.f
        k = tag(obj)
        # strip wrappers that keep the element set
        if k == 'index':
            return self.content(env, obj[1])
        if k == 'field':
            ty = obj[3]
            if ty is not None and is_arrayish_ty(ty):
                base = obj[1]
                bk = tag(base)
                if bk in ('arg', 'upvar', 'local', 'call', 'field', 'index', 'agg', 'downcast'):
                    stored = self.stored_into(env, obj)
                    if stored is not None:
                        return stored
                    return self.content(env, base)
            av = self.ev(env, obj)
            return flat(av)
        if k == 'agg':
            if obj[1] == 'adt' and obj[2] in ('linalg::array::vec::Vector', 'linalg::array::matrix::Matrix'):
                stored = self.stored_into(env, obj)
                base = self.content(env, obj[3][0])
                return base if stored is None else stored
            return flat(self.ev(env, obj))
        if k == 'arg':
            stored = None
            av = env.args.get(obj[1])
            if av is None:
                av = frozenset([('sym', 'arg%d' % obj[1])])
            return flat(av)
        if k == 'upvar':
            return flat(self.ev(env, obj))
        if k == 'call':
            stored = self.stored_into(env, obj)
            if stored is not None:
                return stored
            return flat(self.ev(env, obj))
        if k == 'local':
            stored = self.stored_into(env, obj)
            init = self.local_value(env, obj)
            if stored is not None:
                return stored
            return flat(init)
        if k == 'item':
            return flat(self.item_value(env, obj[2]))
        if k == 'downcast':
            return self.content(env, obj[1])
        return flat(self.ev(env, obj))

    def init_content(self, env, obj):
        """content of the object before any store in this function"""
        k = tag(obj)
        if k == 'call':
            return flat(self.ev_call(env, obj))
        if k in ('index', 'downcast'):
            return self.init_content(env, obj[1])
        if k == 'arg':
            av = env.args.get(obj[1])
            return flat(av) if av is not None else frozenset([('sym', 'arg%d' % obj[1])])
        if k == 'agg' and obj[1] == 'adt':
            return self.content(env, obj[3][0])
        if k == 'field':
            return self.init_content(env, obj[1])
        return flat(self.ev(env, obj))

    def stored_into(self, env, obj):
        """join of all element values stored into `obj`; see _stored_into1.  When the first pass shows read-modify-write of a buffer
        that starts uninitialised (push .. then out[k] /= s), a second pass lets reads of `obj` inside the stores see the values
        the first pass found (one widening step of the obvious fixpoint) instead of the uninitialised initial content."""
        out = self._stored_into1(env, obj)
        if out is None or not any(_mentions_uninit(e) for e in out):
            return out
        cobj = self.canon(obj)
        key = (env.key(), ('stored', cobj))
        if key in self._override or key in self._stack:
            return out
        clean = frozenset(e for e in out if not _mentions_uninit(e))
        if not clean:
            return out
        self._override[key] = clean
        saved = self._supp
        self._supp = self._supp + (('pass2', key),)
        try:
            out2 = self._stored_into1(env, obj)
        finally:
            self._supp = saved
            del self._override[key]
        if out2 is not None and not any(_mentions_uninit(e) for e in out2):
            return out2 | clean if False else out2
        return out

    def _stored_into1(self, env, obj):
        """join of all element values stored into `obj` in env.f (directly, through a mutating callee,
        or through a for_each closure); None if nothing is stored.  While the stored values are being
        evaluated, reads of `obj` itself see its initial content (or the override of the second pass)."""
        f = env.f
        obj = self.canon(obj)
        key = (env.key(), ('stored', obj))
        if key in self._stack:
            return self._override.get(key)
        mkey = (key, self._supp)
        if mkey in self._memo:
            return self._memo[mkey]
        self._stack.append(key)
        saved_supp = self._supp
        self._supp = self._supp + (key,)
        try:
            out = None

            def add(av):
                nonlocal out
                av = flat(av)
                out = av if out is None else (out | av)

            def same_obj(x):
                """is term x (a store target / call argument) a view into obj?"""
                return self.canon(x) == obj

            for s in f.stores():
                tgt = s.target
                if tgt == obj:
                    continue
                if tag(tgt) in ('index',) and same_obj(tgt[1]):
                    add(self.ev(env, s.value))
                elif tag(tgt) == 'field' and tgt[3] is not None and is_arrayish_ty(tgt[3]) and same_obj(tgt[1]):
                    # replacing the data field wholesale
                    add(self.content(env, s.value))
                elif tag(tgt) == 'call' and tgt[1] in self.pdb.bodies and short(tgt[1]) in ('index_mut',) and same_obj(tgt):
                    add(self.ev(env, s.value))
            for c in f.calls():
                if c.fn is None:
                    continue
                p = c.path
                s = short(p)
                if not c.args:
                    continue
                a0 = c.args[0]
                if s == 'push' and p.startswith('std::vec::Vec') and same_obj(a0):
                    add(self.ev(env, c.args[1]))
                elif s in ('extend', 'extend_from_slice') and same_obj(a0) and p not in self.pdb.bodies:
                    add(self.item_value(env, c.args[1]))
                elif s == 'extend' and p in self.pdb.bodies and same_obj(a0):
                    add(self.item_value(env, c.args[1]))
                elif s == 'copy_from_slice' and same_obj(a0):
                    add(self.content(env, c.args[1]))
                elif s == 'for_each' and 'Iterator' in p:
                    it = c.args[0]
                    item = self.item_value(env, it)
                    effs = self.closure_effects(env, c.args[1], [item])
                    if effs is None:
                        if self.iter_touches(it, same_obj):
                            add(top('for_each with unknown closure'))
                        continue
                    for path, av in effs:
                        if path and path[0] == 0:
                            o = self.iter_object(it, path[1:])
                            # the iterated thing may itself be the item of an enclosing loop (`for (i, row) in (&mut m).into_iter().enumerate()
                            # { row.iter_mut().zip(..).for_each(..) }`): follow it to the object that loop walks
                            hops = 0
                            while o is not None and not same_obj(o) and hops < 3:
                                r, fpath = o, []
                                while tag(r) in ('field', 'index', 'deref') and len(fpath) < 6:
                                    if tag(r) == 'field' and isinstance(r[2], int):
                                        fpath.append(r[2])
                                    r = r[1]
                                if tag(r) != 'item':
                                    break
                                o = self.iter_object(r[2], tuple(reversed(fpath))) if _has_tuple_items(r[2]) else self.iter_object(r[2], ())
                                hops += 1
                            if o is not None and same_obj(o):
                                add(av)
                        elif path and path[0] == 'upvar':
                            ck, _ = self.closure_of(env, c.args[1])
                            ct = c.args[1]
                            if tag(ct) == 'agg' and path[1] < len(ct[3]) and same_obj(ct[3][path[1]]):
                                add(av)
                    # items are `&mut` views of obj (iter_mut / chunks_mut ..) and no write through them was read: the closure body writes in
                    # a way that is not followed (a for_each of its own over the item) -- unknown, not absent
                    if not any(pth and pth[0] == 0 for pth, _ in effs) and self.iter_touches(it, same_obj) and \
                            any(tag(z) == 'call' and short(z[1]) in ('iter_mut', 'chunks_mut', 'chunks_exact_mut', 'split_at_mut') for z in subterms_(it)):
                        add(top('for_each over &mut items with no write read'))
                    # the closure captures obj by `&mut` but no write through that capture was read (an inner loop over rows of the captured
                    # buffer, say): its effect on obj is unknown, not absent
                    ct = c.args[1]
                    if tag(ct) == 'agg' and ct[1] == 'closure':
                        gcl = self.prog.func(ct[2])
                        if gcl is not None:
                            pool_ = [st.target for st in gcl.stores()] + [st.value for st in gcl.stores()] + [a_ for cc in gcl.calls() for a_ in cc.args]
                            mut_ups = {z[1] for t_ in pool_ for z in subterms_(t_) if tag(z) == 'upvar' and len(z) > 2 and '&mut' in str(z[2])[:8]}
                            for k_ in mut_ups:
                                if k_ < len(ct[3]) and same_obj(ct[3][k_]) and not any(pth and pth[0] == 'upvar' and pth[1] == k_ for pth, _ in effs):
                                    add(top('captured &mut by a for_each closure whose writes are not read'))
                elif p in self.pdb.bodies:
                    # in-crate callee mutating a &mut parameter that views obj
                    cargs, ctys, ups = list(c.args), list(c.argtys), {}
                    g = self.prog.func(p)
                    if g.body.kind == 'closure' and len(cargs) == 2 and tag(cargs[1]) == 'agg' and cargs[1][1] == 'tuple':
                        # direct call of a local closure: `f(row, k)` is {closure}(&f, (row, k)); the body sees the tuple untupled
                        _, ups = self.closure_of(env, cargs[0])
                        comps = list(cargs[1][3])
                        tt = ctys[1].strip() if len(ctys) > 1 else ''
                        tys = _split_tuple_ty(tt)
                        if len(tys) != len(comps):
                            if any(same_obj(y) for y in comps):
                                add(top('closure call with unreadable argument types'))
                            continue
                        cargs = [cargs[0]] + comps
                        ctys = [ctys[0]] + tys
                    for i, x in enumerate(cargs):
                        if same_obj(x) and i < len(ctys) and ctys[i].startswith('&mut'):
                            args = {j + 1: (self.init_content(env, y) if same_obj(y) else self.ev_arg(env, y))
                                    for j, y in enumerate(cargs)}
                            genv = Env(g, args, ups or {})
                            for j, y in enumerate(cargs):
                                ck, cu = self.closure_of(env, y)
                                if ck is not None:
                                    genv.closures[j + 1] = (ck, cu)
                            self.visited.add(p)
                            e = self.stored_into(genv, ('arg', i + 1, g.names.get(i + 1)))
                            if e is not None:
                                add(e)
                elif any(same_obj(x) and i < len(c.argtys) and c.argtys[i].startswith('&mut') for i, x in enumerate(c.args)):
                    # a std callee given a `&mut` view of obj: content-preserving ones are listed, the rest is an unknown effect
                    if s == 'fill' and len(c.args) > 1:
                        add(self.ev(env, c.args[1]))
                    elif s in ('resize', 'insert') and len(c.args) > 2:
                        add(self.ev(env, c.args[2]))
                    elif s not in _CONTENT_PRESERVING:
                        add(top('unmodelled &mut use by ' + s))
            # explicit loop items holding &mut views (for row in self { row[col] = ... }, for pair in v.chunks_exact_mut(2) { pair[0] += .. })
            def chain_touches(it):
                if same_obj(it):
                    return True
                if tag(it) == 'call':
                    return any(chain_touches(x) for x in it[2])
                if tag(it) in ('index', 'field', 'deref', 'cast'):
                    return chain_touches(it[1] if tag(it) != 'cast' else it[2])
                if tag(it) == 'item':
                    return chain_touches(it[2])       # a row / chunk handed out by an outer loop
                return False
            for s in f.stores():
                r = s.target
                depth = 0
                fpath = []
                while tag(r) in ('index', 'field', 'deref') and depth < 6:
                    if tag(r) == 'field' and isinstance(r[2], int):
                        fpath.append(r[2])
                    r = r[1]
                    depth += 1
                if tag(r) == 'item' and chain_touches(r[2]):     # depth 0: `*item = ..` through a `&mut` item (references are transparent in terms)
                    # which component of a zipped / enumerated item is written decides the object: (x, y) over a.iter_mut().zip(b)
                    # stores into a through .0 only
                    o = self.iter_object(r[2], tuple(reversed(fpath))) if _has_tuple_items(r[2]) else None
                    if o is not None and tag(o) != 'item' and not same_obj(o):
                        continue
                    add(self.ev(env, s.value))
            self._memo[mkey] = out
            return out
        finally:
            self._stack.pop()
            self._supp = saved_supp

    def canon(self, x):
        """the base object a view term refers to"""
        while True:
            if tag(x) in ('index', 'downcast'):
                x = x[1]
                continue
            if tag(x) == 'field' and x[3] is not None and is_arrayish_ty(x[3]):
                x = x[1]
                continue
            if tag(x) == 'call' and x[1] in self.pdb.bodies and x[2] and short(x[1]) in ('index', 'index_mut', 'data_mut', 'deref_mut', 'deref', 'data'):
                x = x[2][0]
                continue
            return x

    def iter_touches(self, it, pred):
        k = tag(it)
        if k == 'call':
            return any(self.iter_touches(x, pred) for x in it[2])
        return pred(it)

    def effects_on(self, env, argterm):
        return self.stored_into(env, argterm)


# std methods taking `&mut` of a buffer that store no new element value into it (views, permutations, removals; writes made
# through a returned view / iterator are seen at the store through that view)
_CONTENT_PRESERVING = {'index_mut', 'deref_mut', 'set_len', 'iter_mut', 'swap', 'sort', 'sort_by', 'sort_unstable', 'sort_unstable_by',
                       'sort_by_key', 'chunks_mut', 'chunks_exact_mut', 'reverse', 'as_mut_slice', 'as_mut', 'split_at_mut', 'last_mut',
                       'first_mut', 'get_mut', 'rotate_left', 'rotate_right', 'truncate', 'clear', 'reserve', 'pop', 'remove',
                       'swap_remove', 'drain', 'retain', 'dedup', 'into_iter', 'next', 'borrow_mut', 'split_first_mut', 'split_last_mut',
                       'push', 'extend', 'extend_from_slice', 'copy_from_slice', 'shrink_to_fit', 'windows', 'len', 'get_unchecked_mut',
                       'as_mut_ptr', 'select_nth_unstable_by', 'iter', 'rchunks_mut', 'split_mut'}


def _has_tuple_items(it):
    """does the iterator chain produce tuple items (zip / enumerate somewhere along it)?"""
    while tag(it) == 'call' and it[2]:
        if short(it[1]) in ('zip', 'enumerate'):
            return True
        it = it[2][0]
    return False


def _split_tuple_ty(t):
    """component types of a tuple type string `(A, B<C, D>, &mut [f64])`"""
    t = t.strip()
    if not (t.startswith('(') and t.endswith(')')):
        return []
    out, depth, cur = [], 0, ''
    for ch in t[1:-1]:
        if ch in '<([':
            depth += 1
        elif ch in '>)]':
            depth -= 1
        if ch == ',' and depth == 0:
            out.append(cur.strip())
            cur = ''
        else:
            cur += ch
    if cur.strip():
        out.append(cur.strip())
    return out


def _mentions_uninit(e):
    if e == UNINIT:
        return True
    if isinstance(e, (tuple, frozenset)):
        return any(_mentions_uninit(x) for x in e if isinstance(x, (tuple, frozenset)))
    return False


def strip_rec(e):
    """inside an accumulator's update expression the self-reference reads `acc`"""
    if isinstance(e, frozenset):
        return frozenset(strip_rec(x) for x in e)
    if not isinstance(e, tuple):
        return e
    if e and e[0] == 'top' and e[1] == 'recursion':
        return ('sym', 'acc')
    return tuple(strip_rec(x) if isinstance(x, (tuple, frozenset)) else x for x in e)


def canon_comm(e):
    """canonical operand order for the IEEE-commutative operations Add and Mul"""
    if isinstance(e, frozenset):
        return frozenset(canon_comm(x) for x in e)
    if not isinstance(e, tuple):
        return e
    e = tuple(canon_comm(x) if isinstance(x, (tuple, frozenset)) else x for x in e)
    if e and e[0] == 'b' and e[1] in ('Add', 'Mul') and repr(e[2]) > repr(e[3]):
        return ('b', e[1], e[3], e[2])
    return e


def join(a, b):
    if is_tuple(a) and is_tuple(b) and len(a[1]) == len(b[1]):
        return ('tuple', tuple(join(x, y) for x, y in zip(a[1], b[1])))
    return flat(a) | flat(b)


class Env:
    def __init__(self, f, args, upvars):
        self.f = f
        self.args = args
        self.upvars = upvars
        self.closures = {}
        self._key = None

    def key(self):
        if self._key is None:
            self._key = (self.f.body.key, tuple(sorted(self.args.items(), key=lambda kv: kv[0])),
                         tuple(sorted(self.upvars.items(), key=lambda kv: kv[0])),
                         tuple(sorted((str(k), v[0]) for k, v in self.closures.items())))
        return self._key
