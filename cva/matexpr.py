"""E-IDX orientation algebra: symbolic matrix expressions with shapes.

MatVal = (expr, rows, cols); expr over ('M', leaf-term) | ('T', e) | ('Mul', e1, e2) | ('I',) | ('Inv', e),
normalised with T(T(x)) = x, T(Mul(x, y)) = Mul(T(y), T(x)).  Shapes are size terms of the function's frame.

The triple-loop product kernel  c[i*N + j] += a'[i*L + k] * b'[k*N + j]  (optionally tiled) is recognised as
Mul(a', b') from the affine access maps; `transpose`, `to_vec`, `matmul` (by constant flags, recursively through
a specialised copy of the callee) have transfer functions."""
from .ir import tag, show, short, subterms
from .idx import IdxFunc, strip_casts
from .poly import poly, psub, padd, pmul, pconst, peq, atoms, pshow
from .structs import subst


def T(e):
    if e[0] == 'T':
        return e[1]
    if e[0] == 'Mul':
        return ('Mul', T(e[2]), T(e[1]))
    if e[0] == 'I':
        return e
    if e[0] == 'Inv':
        return ('Inv', T(e[1]))
    return ('T', e)


def show_mat(e):
    if e[0] == 'M':
        return e[1] if isinstance(e[1], str) else show(e[1])
    if e[0] == 'T':
        return show_mat(e[1]) + "'"
    if e[0] == 'Mul':
        return '(%s.%s)' % (show_mat(e[1]), show_mat(e[2]))
    if e[0] == 'Inv':
        return 'inv(%s)' % show_mat(e[1])
    if e[0] == 'I':
        return 'I'
    return repr(e)


def _ival(t, env):
    """value of an unsigned integer term under env (atom -> int); None when not evaluable"""
    t = strip_casts(t)
    if t in env:
        return env[t]
    k = tag(t)
    if k == 'const' and isinstance(t[2], int):
        return t[2]
    if k == 'bin':
        a, b = _ival(t[2], env), _ival(t[3], env)
        if a is None or b is None:
            return None
        op = t[1]
        if op in ('Add', 'AddO'):
            return a + b
        if op in ('Sub', 'SubO'):
            return a - b if a >= b else None
        if op in ('Mul', 'MulO'):
            return a * b
        if op == 'Div':
            return a // b if b else None
        if op == 'Rem':
            return a % b if b else None
        return None
    if k == 'call' and short(t[1]) in ('min', 'max') and len(t[2]) == 2:
        a, b = _ival(t[2][0], env), _ival(t[2][1], env)
        if a is None or b is None:
            return None
        return min(a, b) if short(t[1]) == 'min' else max(a, b)
    return None


def _iatoms(t, out):
    t = strip_casts(t)
    k = tag(t)
    if k == 'bin':
        _iatoms(t[2], out)
        _iatoms(t[3], out)
    elif k == 'call' and short(t[1]) in ('min', 'max') and len(t[2]) == 2:
        _iatoms(t[2][0], out)
        _iatoms(t[2][1], out)
    elif k != 'const':
        out.add(t)


def _tile_models(it_count, size, limit):
    """tiles [o*S, min(o*S + S, L)) for o in 0..count: 'cover' if they are exactly 0..L on every small model, a witness dict if some model
    leaves indices out, None if the terms are not evaluable"""
    import itertools
    ats = set()
    for t in (it_count, size, limit):
        _iatoms(t, ats)
    ats = sorted(ats, key=repr)
    if not ats or len(ats) > 5:
        return None
    ok_models = 0
    for vals in itertools.product(range(1, 7), repeat=len(ats)):
        env = dict(zip(ats, vals))
        c, S, L = _ival(it_count, env), _ival(size, env), _ival(limit, env)
        if c is None or S is None or L is None or S <= 0:
            continue
        covered = set()
        for o in range(c):
            covered.update(range(o * S, min(o * S + S, L)))
        if covered != set(range(L)):
            return {'env': env, 'covered': len(covered), 'L': L}
        ok_models += 1
    return 'cover' if ok_models >= 20 else None


class MatProblem(Exception):
    def __init__(self, msg, definite=False):
        Exception.__init__(self, msg)
        self.definite = definite


class MatEngine:
    def __init__(self, prog):
        self.prog = prog
        self._summaries = {}

    # ------------------------------------------------------------------ evaluation of a term to a MatVal
    def mat(self, f, t, ix=None, leafnames=None, depth=0):
        ix = ix or IdxFunc(self.prog, f)
        leafnames = leafnames or {}
        k = tag(t)
        d = ix.dims()
        if k == 'arg':
            if t in leafnames:
                nm = leafnames[t]
            else:
                nm = t[2] or 'arg%d' % t[1]
            sh = d.get(t)
            if sh is None:
                raise MatProblem('parameter %s is not bound to a shape' % show(t))
            return (('M', nm), strip_casts(sh[0]), strip_casts(sh[1]))
        if k == 'call':
            p = t[1]
            s = short(p)
            # a matrix value that is written into after it was computed is no longer what its defining call denotes
            mods = [st for st in f.stores() if tag(st.target) == 'index' and st.target[1] == t] if p in self.prog.pdb.bodies else []
            if mods:
                perturb = all(tag(st.value) == 'bin' and st.value[1] in ('Add', 'Sub') and st.target in (st.value[2], st.value[3]) and
                              tag(st.value[3] if st.value[2] == st.target else st.value[2]) == 'const' for st in mods)
                if perturb:
                    c_ = mods[0].value[3] if mods[0].value[2] == mods[0].target else mods[0].value[2]
                    raise MatProblem('entries %s of %s are shifted by the constant %s after it is computed: the operand is no longer that matrix '
                                     '(a regularised system has a different solution)' % (show(mods[0].target[2])[:30], show_mat(self._plain(f, t, ix, leafnames, depth)), show(c_)), definite=True)
                raise MatProblem('%s is modified element-wise after it is computed' % show(t)[:50])
            if s in ('to_vec', 'to_owned', 'clone') and t[2]:
                return self.mat(f, t[2][0], ix, leafnames, depth)
            if p.endswith('utils::transpose'):
                x, r = t[2]
                mv = self.mat(f, x, ix, leafnames, depth)
                if not self._same(ix, f, strip_casts(r), mv[1]):
                    raise MatProblem('transpose(%s, %s): the second argument must be the row count %s of its input' % (
                        show_mat(mv[0]), show(r), show(mv[1])), definite=True)
                return (T(mv[0]), mv[2], mv[1])
            if p.endswith('utils::matmul') or p.endswith('utils::matmul_blocked'):
                return self.call_matmul(f, t, ix, leafnames, depth)
            if p.endswith('utils::vandermonde') and len(t[2]) == 2:
                # the arguments (in the frame of the body being evaluated, helpers are inlined with their arguments substituted) are kept
                # for the caller to judge: which array the design matrix is built from, and with how many columns
                if not hasattr(self, 'vander_seen'):
                    self.vander_seen = []
                self.vander_seen.append((t[2][0], strip_casts(t[2][1])))
                return (('M', 'V'), ('len', t[2][0]), strip_casts(t[2][1]))
            if p.endswith('utils::xtx') and len(t[2]) == 2:
                mv = self.mat(f, t[2][0], ix, leafnames, depth)
                if not self._same(ix, f, strip_casts(t[2][1]), mv[1]):
                    raise MatProblem('xtx(%s, %s): the second argument must be the row count %s' % (show_mat(mv[0]), show(t[2][1]), show(mv[1])), definite=True)
                return (('Mul', T(mv[0]), mv[0]), mv[2], mv[2])
            if p.endswith('utils::invert_matrix') and len(t[2]) == 1:
                mv = self.mat(f, t[2][0], ix, leafnames, depth)
                if not self._same(ix, f, mv[1], mv[2]):
                    raise MatProblem('invert_matrix of a %s x %s matrix' % (show(mv[1]), show(mv[2])), definite=True)
                return (('Inv', mv[0]), mv[1], mv[2])
            if p.endswith('utils::toeplitz') and len(t[2]) == 1:
                return (('M', 'Toeplitz'), ('len', t[2][0]), ('len', t[2][0]))
            if p == 'std::vec::from_elem':
                return self.kernel(f, t, ix, leafnames, depth)
            if p in self.prog.pdb.bodies and depth < 4:
                rv = self._inline(t)
                if rv is not None:
                    return self.mat(f, rv, ix, leafnames, depth + 1)
        if k == 'field' and tag(t[1]) == 'call' and t[1][1] in self.prog.pdb.bodies and depth < 4:
            # component of a tuple returned by an in-crate helper
            rv = self._inline(t[1])
            if rv is not None and tag(rv) == 'agg' and rv[1] == 'tuple' and t[2] < len(rv[3]):
                return self.mat(f, rv[3][t[2]], ix, leafnames, depth + 1)
        if k == 'local':
            vals = [s.value for s in f.stores() if s.target == t]
            if len(vals) == 1:
                return self.mat(f, vals[0], ix, leafnames, depth)
        raise MatProblem('no matrix transfer function for %s' % show(t)[:80])

    def _plain(self, f, t, ix, leafnames, depth):
        """MatVal expression of t ignoring in-place writes (for messages)"""
        saved = f.stores
        try:
            f.stores = lambda: [st for st in saved() if not (tag(st.target) == 'index' and st.target[1] == t)]
            return self.mat(f, t, ix, leafnames, depth)[0]
        except MatProblem:
            return ('M', '?')
        finally:
            f.stores = saved

    def _inline(self, call):
        """the single return value of an in-crate helper with its parameters replaced by the caller's argument terms; None when the
        helper has several return sites or its value depends on callee-local state (multi-definition locals, loop items)"""
        from .ir import map_term
        g = self.prog.func(call[1])
        if g is None:
            return None
        rets = g.return_values()
        if len(rets) != 1 or not self.prog.straight_line(g):
            return None
        args = call[2]
        bad = []

        def sub(n):
            if tag(n) == 'arg':
                if 1 <= n[1] <= len(args):
                    return args[n[1] - 1]
                bad.append(n)
            elif tag(n) in ('local', 'item', 'upvar'):
                bad.append(n)
            return n
        out = map_term(rets[0], sub)
        return None if bad else out

    def _same(self, ix, f, a, b, bb=None):
        a, b = strip_casts(a), strip_casts(b)
        if a == b or peq(poly(a), poly(b)):
            return True
        uf = self._uf(ix, bb)
        if uf is not None:
            from .idx import _canon_poly
            return uf.same(a, b) or peq(_canon_poly(poly(a), uf), _canon_poly(poly(b), uf))
        return False

    def _uf(self, ix, bb):
        if bb is None:
            bb = getattr(self, '_cur_bb', None)
        if bb is None:
            return None
        return ix.equalities(bb)

    # ------------------------------------------------------------------ product kernel
    def kernel(self, f, obj, ix, leafnames, depth):
        """obj = vec![0.; m*n] accumulated by  obj[i*N+j] += x[..] * y[..]  in a loop nest"""
        sts = [s for s in f.stores() if tag(s.target) == 'index' and s.target[1] == obj]
        if len(sts) != 1:
            raise MatProblem('expected one accumulate statement into %s, found %d' % (show(obj)[:40], len(sts)))
        s = sts[0]
        v = s.value
        self._cur_bb = s.bb
        self._cur_ix = ix
        if not (tag(v) == 'bin' and v[1] == 'Add' and v[4] == 'f64'):
            # register accumulator: `let mut t = 0.; for k in K { t += x*y }; c[idx] = t`.  If the plain store sits inside a loop whose variable
            # does not index the output but only delimits K (a panel / tile of the contracted index), every panel overwrites the previous one
            if tag(v) == 'local':
                defs = [st for st in f.stores() if st.target == v]
                accs = [st for st in defs if tag(st.value) == 'bin' and st.value[1] == 'Add' and v in (st.value[2], st.value[3])]
                if accs and any(tag(st.value) == 'const' for st in defs):
                    out_items = {z for z in subterms(s.target[2]) if tag(z) == 'item'}
                    loops = f.loop_info()
                    k_loops = [li for li in loops if accs[0].bb in li['blocks'] and s.bb not in li['blocks'] and li['item'] is not None]
                    tile_loops = [li for li in loops if s.bb in li['blocks'] and li['item'] is not None and li['item'] not in out_items]
                    for kl in k_loops:
                        for tl in tile_loops:
                            if any(z == tl['item'] for z in subterms(kl['iter'])):
                                raise MatProblem('the product buffer is assigned (`=`), not accumulated, once per panel %s of the contracted index (panels over %s): '
                                                 'each panel overwrites the sum of the earlier ones, so only the last panel of the inner dimension contributes' % (
                                                     show(kl['iter'])[:40], show(tl['iter'])[:40]), definite=True)
            raise MatProblem('store into the product buffer is not an accumulation')
        acc, prod = (v[2], v[3]) if v[2] == s.target else ((v[3], v[2]) if v[3] == s.target else (None, None))
        if acc is None or not (tag(prod) == 'bin' and prod[1] == 'Mul'):
            raise MatProblem('accumulated value is not c[idx] + x*y')
        n0 = strip_casts(obj[2][1])
        if not (tag(n0) == 'bin' and n0[1] == 'Mul'):
            raise MatProblem('product buffer length is not rows*cols')
        M_, N_ = strip_casts(n0[2]), strip_casts(n0[3])
        factors = []
        for fac in (prod[2], prod[3]):
            if tag(fac) != 'index':
                raise MatProblem('factor %s is not an element read' % show(fac)[:40])
            factors.append(fac)
        # effective ranges of loop items (tile idiom)
        def rng(item):
            return self.effective_range(ix, item)
        csp = ix.split_stride(poly(s.target[2]), prefer=(N_,))
        if csp is None or not self._same(ix, f, csp[0], N_):
            raise MatProblem('output index %s does not use the output column count %s as stride' % (pshow(poly(s.target[2]), show)[:60], show(N_)), definite=True)
        ci, cj = self._single_item(csp[1]), self._single_item(csp[2])
        if ci is None or cj is None:
            raise MatProblem('output index is not i*N + j over two loop variables')
        for r_ in (rng(ci), rng(cj)):
            if r_ is not None and r_[0] == 'BAD':
                raise MatProblem(r_[1], definite=True)
        if rng(ci) is None or rng(cj) is None:
            raise MatProblem('range of an output loop variable not derived (loop idiom outside the range/tile forms)')
        if not (self._range_is(rng(ci), M_) and self._range_is(rng(cj), N_)):
            raise MatProblem('output loops do not range over 0..%s x 0..%s' % (show(M_), show(N_)), definite=True)
        ops = []
        kvar = None
        for fac in factors:
            mv = self.mat(f, fac[1], ix, leafnames, depth)
            sp = ix.split_stride(poly(fac[2]), prefer=(mv[2],))
            if sp is None:
                raise MatProblem('factor index %s is not 2-D' % pshow(poly(fac[2]), show)[:60])
            if not self._same(ix, f, sp[0], mv[2]):
                raise MatProblem('factor %s (%s x %s) is indexed with stride %s instead of its column count' % (
                    show_mat(mv[0]), show(mv[1]), show(mv[2]), show(sp[0])), definite=True)
            r, c = self._single_item(sp[1]), self._single_item(sp[2])
            if r is None or c is None:
                raise MatProblem('factor index is not p*S + q over loop variables')
            for r_ in (rng(r), rng(c)):
                if r_ is not None and r_[0] == 'BAD':
                    raise MatProblem(r_[1], definite=True)
            if rng(r) is None or rng(c) is None:
                raise MatProblem('range of a factor loop variable not derived (loop idiom outside the range/tile forms)')
            if not (self._range_is(rng(r), mv[1]) and self._range_is(rng(c), mv[2])):
                raise MatProblem('loop ranges do not match the shape %s x %s of factor %s' % (show(mv[1]), show(mv[2]), show_mat(mv[0])), definite=True)
            ops.append((mv, r, c))
        # identify contraction variable
        (ma, ra, ca), (mb, rb, cb) = ops
        vars_c = {ci, cj}
        # which factor carries the output row index?
        def orient(mv, r, c):
            """(expr oriented as out-var x k, outvar, kvar) or as k x outvar"""
            if r in vars_c and c not in vars_c:
                return mv[0], r, c, 'rowout'
            if c in vars_c and r not in vars_c:
                return T(mv[0]), c, r, 'colout'
            return None
        oa, ob = orient(ma, ra, ca), orient(mb, rb, cb)
        if oa is None or ob is None or oa[2] != ob[2]:
            raise MatProblem('factors do not share exactly one contracted index')
        if {oa[1], ob[1]} != vars_c:
            raise MatProblem('the two free indices are not the output row and column')
        # result[ci][cj] = sum_k X[ci][k] * Y[k][cj]
        X = oa if oa[1] == ci else ob
        Y = ob if X is oa else oa
        expr = ('Mul', X[0], T(Y[0]) if True else None)
        # X[0] is oriented (out x k); Y[0] is oriented (out x k) as well -> Y as (k x out) is T(Y[0])
        return (expr, M_, N_)

    def _single_item(self, p):
        its = [a for a in atoms(p)]
        if len(p) == 1 and len(its) == 1:
            (m, c), = p.items()
            if c == 1 and len(m) == 1 and tag(m[0]) == 'item':
                return m[0]
        return None

    def _range_is(self, r, size):
        if r is None or r[0] == 'BAD' or pconst(r[0]) != 0:
            return False
        if peq(r[1], poly(size)):
            return True
        ix = getattr(self, '_cur_ix', None)
        uf = self._uf(ix, None) if ix is not None else None
        if uf is not None:
            from .idx import _canon_poly
            return peq(_canon_poly(r[1], uf), _canon_poly(poly(size), uf))
        return False

    def effective_range(self, ix, item):
        r = ix.item_range(item)
        if r is None:
            return None
        lo, hi, incl = r
        if incl:
            return None
        if pconst(lo) == 0:
            return (lo, hi)
        # tile idiom: item in o*B .. min(o*B + B, L), o in 0..(L/B + 1)
        li = ix.item_loop[item]
        it = li['iter']
        lo_t, hi_t = it[1], it[2]
        hi_s = strip_casts(hi_t)
        if tag(hi_s) == 'call' and hi_s[1] in ('std::cmp::min', 'std::cmp::Ord::min', 'core::cmp::min'):
            a, L = hi_s[2]
            outer = [x for x in atoms(poly(lo_t)) if tag(x) == 'item']
            if len(outer) == 1:
                o = outer[0]
                sp = None
                # lo = o * B
                for m, c in poly(lo_t).items():
                    if c == 1 and len(m) == 2 and o in m:
                        B = [x for x in m if x != o][0]
                        sp = B
                if sp is not None and not peq(poly(a), padd(poly(lo_t), poly(sp))):
                    return ('BAD', 'tiles start every %s elements but are min(start + %s, ..) wide: consecutive tiles overlap or leave gaps' % (
                        show(sp), pshow(psub(poly(a), poly(lo_t)), show)))
                if sp is not None:
                    ro = ix.item_range(o)
                    want_hi = ('bin', 'Add', ('bin', 'Div', L, sp, 'usize'), ('const', 'usize', 1), 'usize')
                    if ro and pconst(ro[0]) == 0 and peq(ro[1], poly(want_hi)):
                        return ({}, poly(L))
                    # recognised tile shape with a tile count that provably does not cover 0..L: X/B [+ 1] over another dimension X, or L/B
                    if ro and pconst(ro[0]) == 0:
                        hs = ro[1]
                        for X in [x for x in atoms(hs) if tag(x) == 'bin' and x[1] == 'Div' and strip_casts(x[3]) == strip_casts(sp)]:
                            plus1 = peq(hs, padd(poly(X), {(): 1}))
                            bare = peq(hs, poly(X))
                            if (plus1 or bare) and (strip_casts(X[2]) != strip_casts(L) or bare):
                                return ('BAD', 'the tile loop runs %s times over tiles of %s covering 0..%s: %s' % (
                                    pshow(hs, show), show(sp), show(L), 'the count is taken from another dimension' if strip_casts(X[2]) != strip_casts(L)
                                    else 'the last, partial tile is dropped'))
                        # any other count / tile-size expressions: decide coverage of 0..L on small models of the integer atoms (all values
                        # 1..6): a model where the tiles do not cover 0..L exactly is a witness; none found = covering on the models tried
                        w = _tile_models(it_count=ix.item_loop[o]['iter'][2], size=sp, limit=L)
                        if w == 'cover':
                            return ({}, poly(L))
                        if isinstance(w, dict):
                            return ('BAD', 'the tile loop runs %s times over tiles of %s covering 0..%s: with %s the tiles cover only %s of the %s indices' % (
                                show(strip_casts(ix.item_loop[o]['iter'][2]))[:40], show(sp)[:30], show(L)[:20],
                                ', '.join('%s = %d' % (show(k_)[:20], v_) for k_, v_ in sorted(w['env'].items(), key=lambda kv: show(kv[0]))), w['covered'], w['L']))
        return None

    # ------------------------------------------------------------------ matmul by flags
    def summary(self, key, flags):
        """MatVal of `key` (matmul / matmul_blocked) specialised to constant flags, over leaves ('M','A'), ('M','B')
        and shape terms of the callee frame"""
        k = (key, flags)
        if k in self._summaries:
            r = self._summaries[k]
            if isinstance(r, Exception):
                raise r
            return r
        self._summaries[k] = MatProblem('recursive matmul specialisation')
        f = self.prog.func(key)
        names = f.body.arg_names()
        ta = names.index('transpose_a') + 1
        tb = names.index('transpose_b') + 1
        g = f.specialise({ta: flags[0], tb: flags[1]})
        ix = IdxFunc(self.prog, g)
        a = ('arg', 1, g.names.get(1))
        b = ('arg', 2, g.names.get(2))
        rets = g.return_values()
        saved_bb = getattr(self, '_cur_bb', None)       # the caller's program point (its asserted equalities) is restored afterwards
        try:
            if len(rets) == 1:
                r = self.mat(g, rets[0], ix, {a: 'A', b: 'B'}, depth=1)
            else:
                # several return sites: all must denote the same matrix.  A site may return the transpose of the others' value only
                # under a condition that makes that value a vector (1 x k or k x 1: transposition is then the identity on flat storage)
                vals = []
                for d in g._defs.get(0, []):
                    t = g.rvalue_term(d[3], d[1]) if d[0] == 'assign' else g.call_term(d[2], d[1])
                    vals.append((self.mat(g, t, ix, {a: 'A', b: 'B'}, depth=1), d[1]))
                main = vals[-1][0]
                for mv, bb in vals[:-1]:
                    if mv[0] == main[0]:
                        continue
                    if mv[0] == T(main[0]) or T(mv[0]) == main[0]:
                        conds = [c for c in g.control_conds(bb) if tag(c) == 'bin' and c[1] == 'Eq' and
                                 ((tag(c[3]) == 'const' and c[3][2] == 1) or (tag(c[2]) == 'const' and c[2][2] == 1))]
                        dims = [strip_casts(c[2] if tag(c[3]) == 'const' else c[3]) for c in conds]
                        bad = [d_ for d_ in dims if not (self._same(ix, g, d_, strip_casts(mv[1])) or self._same(ix, g, d_, strip_casts(mv[2])))]
                        if dims and not bad:
                            continue
                        raise MatProblem('one return site yields %s (%s x %s) where the others yield %s; the shortcut is taken when %s, which does not make the '
                                         'value a single row or column (so it is not its own transpose)' % (
                                             show_mat(mv[0]), show(mv[1])[:30], show(mv[2])[:30], show_mat(main[0]),
                                             ' or '.join('%s == 1' % show(d_)[:30] for d_ in (bad or dims)) or 'no dimension test'), definite=True)
                    raise MatProblem('return sites disagree: %s vs %s' % (show_mat(mv[0]), show_mat(main[0])), definite=True)
                r = main
            r = (r[0], r[1], r[2], g, ix)
        except MatProblem as e:
            self._summaries[k] = e
            raise
        finally:
            self._cur_bb = saved_bb
        self._summaries[k] = r
        return r

    def _operand(self, f, x, rows, ix, leafnames, depth):
        try:
            return self.mat(f, x, ix, leafnames, depth)
        except MatProblem:
            if tag(x) == 'arg':
                nm = leafnames.get(x) or x[2] or 'arg%d' % x[1]
                r = strip_casts(rows)
                if r == ('len', x):
                    return (('M', nm), r, ('const', 'usize', 1))
                return (('M', nm), r, ('bin', 'Div', ('len', x), r, 'usize'))
            raise

    def call_matmul(self, f, t, ix, leafnames, depth):
        p = t[1]
        args = t[2]
        callee = self.prog.func(p)
        names = callee.body.arg_names()
        ia, ib = names.index('transpose_a'), names.index('transpose_b')
        fa, fb = args[ia], args[ib]
        # inside a body specialised to constant flags, a flag parameter passed on is that constant
        spec = getattr(f, 'spec', None) or {}
        if tag(fa) == 'arg' and fa[1] in spec:
            fa = ('const', 'bool', bool(spec[fa[1]]))
        if tag(fb) == 'arg' and fb[1] in spec:
            fb = ('const', 'bool', bool(spec[fb[1]]))
        if tag(fa) != 'const' or tag(fb) != 'const':
            raise MatProblem('matmul called with non-constant transpose flags')
        if depth > 3:
            raise MatProblem('matmul recursion too deep')
        expr, rows, cols, g, gix = self.summary(p, (bool(fa[2]), bool(fb[2])))
        # substitute callee frame -> caller frame
        mapping = {}
        for i, x in enumerate(args):
            mapping[('arg', i + 1, g.names.get(i + 1))] = x
        ma = self._operand(f, args[0], args[2], ix, leafnames, depth + 1)
        mb = self._operand(f, args[1], args[3], ix, leafnames, depth + 1)
        # the callee derives cols from is_matrix(a, rows_a): the rows argument must be the row count of the operand
        if not self._same(ix, f, strip_casts(args[2]), ma[1]):
            raise MatProblem('matmul(.., rows_a = %s) but the first operand %s has %s rows' % (show(args[2]), show_mat(ma[0]), show(ma[1])), definite=True)
        if not self._same(ix, f, strip_casts(args[3]), mb[1]):
            raise MatProblem('matmul(.., rows_b = %s) but the second operand %s has %s rows' % (show(args[3]), show_mat(mb[0]), show(mb[1])), definite=True)

        def sub_e(e):
            if e[0] == 'M':
                return ma[0] if e[1] == 'A' else (mb[0] if e[1] == 'B' else e)
            if e[0] == 'T':
                return T(sub_e(e[1]))
            if e[0] == 'Mul':
                return ('Mul', sub_e(e[1]), sub_e(e[2]))
            return e
        # shapes: map callee shape terms (rows_a / unwrap(is_matrix(a, rows_a)) ...) to the caller's
        def sub_s(s):
            s2 = subst(s, mapping)
            # unwrap(is_matrix(X, r)) in caller frame == cols of X
            for z in list(subterms(s2)):
                if tag(z) == 'call' and short(z[1]) == 'unwrap' and z[2] and tag(z[2][0]) == 'call' and z[2][0][1].endswith('utils::is_matrix'):
                    x = z[2][0][2][0]
                    try:
                        mv = self.mat(f, x, ix, leafnames, depth + 1)
                        s2 = subst(s2, {z: mv[2]})
                    except MatProblem:
                        pass
            return strip_casts(s2)
        return (sub_e(expr), sub_s(rows), sub_s(cols))


def expected_product(ta, tb):
    A = ('M', 'A')
    B = ('M', 'B')
    return ('Mul', T(A) if ta else A, T(B) if tb else B)
