"""Object-state transformers of mutators (C18).

For a struct with a constructor `new(args) -> Struct { field_i: init_i(args) }` (cva.structs.StructModel) the effect of a mutator
(`&mut self` method, trait `update`) is computed as
    state  : field index -> term the field holds when the mutator returns (missing = unchanged), over the mutator's arguments and
             the fields of `self` on entry;
    guards : canonical conditions under which the mutator returns normally (everything else panics).
Understood ways of writing the object, in program order (each must lie on every path to the return):
    self.f = v                       field store
    *self = Struct { f: v, ..*self } whole-object store of a literal (copied fields are unchanged)
    *self = Self::new(a, ..)         whole-object store of a constructor result (fields = initialisers, guards = constructor guards)
    self.set_x(v) / chains           another mutator of the same type: its effect is composed (its reads of self see the state so far)
Values are read through straight-line in-crate helpers (Program.inline) and projections of literals are folded, so that
`Self::shape_gen(a)` and `Gamma::new(a, 1.)`, or `Self::new(a, b).lower` and `a`, compare equal.  Guards include those of
validation helpers called on the way: helpers returning unit, returning one of their parameters unchanged, or the constructor of the
same type.  Anything else (conditional writes, nested writes, unknown whole-object values) makes the effect undecided."""
from .ir import tag, show, short, subterms, map_term, root
from .structs import canon_guard, subst, strip_sites, unname


def fold(t):
    """field-of-literal projections folded"""
    def f(n):
        if tag(n) == 'field' and tag(n[1]) == 'agg' and n[1][1] in ('adt', 'tuple') and isinstance(n[2], int) and n[2] < len(n[1][3]):
            return n[1][3][n[2]]
        return n
    return map_term(t, f)


def gmap(g, f):
    """canonical guard with f applied to its operand terms (re-canonicalised)"""
    if g[0] == 'cmp':
        return canon_guard(('bin', g[1], f(g[2]), f(g[3]), g[5]), g[4])
    return canon_guard(f(g[1]), g[2])


def gterms(g):
    return (g[2], g[3]) if g[0] == 'cmp' else (g[1],)


class Effect:
    def __init__(self):
        self.state = {}
        self.guards = []
        self.undec = None
        self.bodies = []
        self.partial = set()    # fields written on some paths only
        self.opaque = []        # conditions the writes are control dependent on that are not dominating guards (disjunctive / match forms)


class ObjModel:
    def __init__(self, prog, sm):
        self.prog, self.sm = prog, sm
        self.path = sm.path
        self._eff = {}
        self._fg = {}
        self.inits = {i: self.norm(t) for i, t in (sm.inits or {}).items()}
        self.new_guards = self.fn_guards(sm.new) if sm.new is not None else []
        # new() validates through a pass-through helper that can panic but whose panic condition is not a read comparison
        # (match on an Ordering, a predicate): the constructor's accepted set is then not read, and guard comparisons are not decided
        self.new_unread = None
        if sm.new is not None:
            for c in sm.new.calls():
                if c.path and c.path in prog.pdb.bodies and self._passthrough(c.path):
                    h = prog.func(c.path)
                    if h.cfg.panics and not self.fn_guards(h, 1):
                        self.new_unread = 'new() validates through %s, whose rejecting condition is not a read comparison' % short(c.path)

    # ------------------------------------------------------------------ normal forms
    def norm(self, t):
        return fold(self._pass(fold(self.prog.inline(t, depth=3))))

    def _passthrough(self, key):
        """component -> parameter number for an in-crate helper every return value of which is a tuple of its own parameters
        (a validation helper that hands its arguments back): whenever it returns, component i IS the argument"""
        if not hasattr(self, '_pt'):
            self._pt = {}
        if key not in self._pt:
            self._pt[key] = None
            h = self.prog.func(key) if key in self.prog.pdb.bodies else None
            rv = h.return_values() if h is not None else []
            if rv and all(tag(r) == 'agg' and r[1] == 'tuple' and all(tag(c) == 'arg' for c in r[3]) for r in rv):
                maps = [{i: c[1] for i, c in enumerate(r[3])} for r in rv]
                if all(m == maps[0] for m in maps[1:]):
                    self._pt[key] = maps[0]
        return self._pt[key]

    def _pass(self, t):
        def f(n):
            if tag(n) == 'field' and tag(n[1]) == 'call' and isinstance(n[2], int):
                m = self._passthrough(n[1][1])
                if m and n[2] in m and m[n[2]] - 1 < len(n[1][2]):
                    return n[1][2][m[n[2]] - 1]
            return n
        return map_term(t, f)

    def clean(self, t):
        return unname(strip_sites(t))

    def is_mutator(self, key):
        b = self.prog.pdb.bodies.get(key)
        return bool(b and b.impl and b.impl['self_ty'] == self.path and b.sig and b.sig['inputs'] and b.sig['inputs'][0].startswith('&mut'))

    # ------------------------------------------------------------------ guards of a function's normal return
    def fn_guards(self, g, depth=0):
        """canonical guards that hold whenever g returns normally (common to all return blocks), with the guards of validation
        helpers called on the way translated into g's frame"""
        key = g.body.key
        if key in self._fg:
            return self._fg[key]
        self._fg[key] = []
        cfg = g.cfg
        sets = []
        for r in cfg.returns:
            gs = [canon_guard(self.norm(c), v) for c, v in g.guards().get(r, []) if isinstance(v, bool) or True]
            if depth < 3:
                for c in g.calls():
                    if not c.path or c.path not in self.prog.pdb.bodies or c.path == key or not cfg.dominates(c.bb, r):
                        continue
                    if self.is_mutator(c.path):
                        continue            # composed by effect()
                    if self._nested_target(c, ('arg', 1, g.names.get(1))) is not None:
                        continue            # a mutator of an embedded object: composed by effect(); its validation mirrors the embedded constructor's
                    h = self.prog.func(c.path)
                    if h is None or not h.cfg.returns or not self._is_validator(h):
                        continue
                    mapping = {('arg', i + 1, h.names.get(i + 1)): self.norm(a) for i, a in enumerate(c.args)}
                    for gd in self.fn_guards(h, depth + 1):
                        gs.append(gmap(gd, lambda t, m=mapping: subst(t, m)))
            sets.append(gs)
        out = []
        if sets:
            for x in sets[0]:
                if all(x in s_ for s_ in sets[1:]) and x not in out:
                    out.append(x)
        self._fg[key] = out
        return out

    def _is_validator(self, h):
        """helpers whose preconditions count as validation of the caller: unit result, a parameter passed through unchanged, a bool
        predicate is NOT one (it is inlined into the condition instead), or the constructor of the modelled type"""
        if h.body.key == self.path + '::new':
            return True
        if h.body.local_ty(0) == '()':
            return True
        rv = h.return_values()
        if self._passthrough(h.body.key):
            return True
        return bool(rv) and all(tag(r) == 'arg' for r in rv) and len({r[1] for r in rv}) == 1

    # ------------------------------------------------------------------ effect of a mutator
    def effect(self, g, depth=0):
        key = g.body.key
        if key in self._eff:
            return self._eff[key]
        e = Effect()
        self._eff[key] = e
        e.bodies.append(key)
        me = ('arg', 1, g.names.get(1))
        cfg = g.cfg
        rpo = {b: i for i, b in enumerate(cfg.rpo())}
        events = []
        for s in g.stores():
            t = s.target
            if t == me:
                events.append((rpo.get(s.bb, 0), s.idx if s.idx is not None else 0, 'whole', s))
            elif tag(t) == 'field' and t[1] == me:
                events.append((rpo.get(s.bb, 0), s.idx if s.idx is not None else 0, 'field', s))
            elif root(t) == me and tag(t) != 'arg':
                e.undec = 'write inside a field of self: %s' % show(t)[:50]
        for c in g.calls():
            if c.path and c.path in self.prog.pdb.bodies and self.is_mutator(c.path) and c.args and self._is_self(c.args[0], me):
                events.append((rpo.get(c.bb, 0), 10 ** 6, 'call', c))
            elif c.path and c.args and c.argtys and self._nested_target(c, me) is not None:
                events.append((rpo.get(c.bb, 0), 10 ** 6, 'nested', c))
            elif c.path and c.args and c.argtys:
                # a field of self handed out `&mut` (a buffer filled by a callee, an embedded object changed by something that is not one of
                # its own mutators): the field is modified in place by something this model does not compose
                for a_, ty_ in zip(c.args, c.argtys):
                    r_ = a_
                    while tag(r_) in ('field', 'index', 'deref'):
                        if tag(r_) == 'field' and r_[1] == me:
                            break
                        r_ = r_[1]
                    if str(ty_).startswith('&mut') and tag(r_) == 'field' and r_[1] == me:
                        e.undec = e.undec or 'field %s of self is modified in place by %s' % (r_[2], short(c.path))
        events.sort(key=lambda ev: (ev[0], ev[1]))
        e.partial = getattr(e, 'partial', set())
        for ev in events:
            bb = ev[3].bb
            if not all(cfg.dominates(bb, r) for r in cfg.returns):
                if ev[2] == 'field':
                    # a single field written on some paths only: the field is reported as partially written, the rest of the effect stands
                    e.partial.add(ev[3].target[2])
                else:
                    e.undec = e.undec or 'a write to self is conditional (bb%d does not lie on every path to the return)' % bb
        dom_conds = set()
        for r in cfg.returns:
            for c_, v_ in g.guards().get(r, []):
                dom_conds.add(c_)
        for ev in events:
            for c_ in g.control_conds(ev[3].bb):
                if c_ not in dom_conds and c_ not in e.opaque and tag(c_) != 'const':
                    e.opaque.append(c_)
        state = {}

        def sub(v):
            v = self.norm(v)

            def f(n):
                if tag(n) == 'field' and n[1] == me and n[2] in state:
                    return state[n[2]]
                return n
            return map_term(v, f)
        guards = []
        for _, _, kind, x in events:
            if kind == 'field':
                state[x.target[2]] = sub(x.value)
            elif kind == 'whole':
                v = sub(x.value)
                if tag(v) == 'call' and v[1] == self.path + '::new' and self.sm.inits is not None:
                    mapping = {self.sm.new_arg(i + 1): a for i, a in enumerate(v[2])}
                    v = ('agg', 'adt', self.path, tuple(subst(self.inits[i], mapping) for i in sorted(self.inits)))
                if tag(v) == 'agg' and v[1] == 'adt' and v[2] == self.path:
                    for i, comp in enumerate(v[3]):
                        if tag(comp) == 'field' and comp[1] == me and comp[2] == i:
                            continue          # `..*self`: unchanged
                        state[i] = comp
                elif v == me:
                    pass
                else:
                    e.undec = e.undec or 'whole-object store of %s not read' % show(v)[:50]
            elif kind == 'nested':
                # `self.sampler.set_alpha(v)`: a mutator of the embedded object's own type applied to field k.  The field becomes a literal of
                # that type whose components are the mutator's final terms, the untouched ones marked as "what field k held before"
                c = x
                k_ = self._nested_target(c, me)
                subm = self._sub_model(k_)
                h = self.prog.func(c.path)
                if subm is None or h is None:
                    e.undec = e.undec or 'embedded object %s changed by %s, whose type is not modelled' % (k_, short(c.path))
                    continue
                he = subm.effect(h, depth + 1)
                e.bodies += [b for b in he.bodies if b not in e.bodies]
                if he.undec or he.partial or he.opaque:
                    e.undec = e.undec or '%s on field %s: %s' % (short(c.path), k_, he.undec or 'conditional writes')
                    continue
                hme = ('arg', 1, h.names.get(1))
                prev = state.get(k_, ('field', me, k_, self.sm.fields[k_]['ty']))
                mapping = {('arg', j + 1, h.names.get(j + 1)): sub(a) for j, a in enumerate(c.args) if j >= 1}

                def trn(t, mapping=mapping, hme=hme, prev=prev):
                    def f_(n):
                        if n in mapping:
                            return mapping[n]
                        if tag(n) == 'field' and n[1] == hme:
                            return fold(('field', prev, n[2], n[3]))
                        return n
                    return map_term(t, f_)
                comps = []
                for j in range(subm.sm.nfields):
                    if j in he.state:
                        comps.append(trn(he.state[j]))
                    else:
                        comps.append(fold(('field', prev, j, subm.sm.fields[j]['ty'])))
                state[k_] = ('agg', 'adt', subm.path, tuple(comps))
                e.nested = getattr(e, 'nested', set()) | {k_}
            else:
                c = x
                h = self.prog.func(c.path)
                if depth >= 3 or h is None:
                    e.undec = e.undec or 'mutator nesting too deep'
                    continue
                he = self.effect(h, depth + 1)
                e.bodies += [b for b in he.bodies if b not in e.bodies]
                if he.undec:
                    e.undec = e.undec or '%s: %s' % (short(c.path), he.undec)
                hme = ('arg', 1, h.names.get(1))
                mapping = {('arg', j + 1, h.names.get(j + 1)): sub(a) for j, a in enumerate(c.args) if j >= 1}
                snap = dict(state)

                def tr(t, mapping=mapping, hme=hme, snap=snap):
                    def f(n):
                        if n in mapping:
                            return mapping[n]
                        if tag(n) == 'field' and n[1] == hme:
                            return snap.get(n[2], ('field', me, n[2], n[3]))
                        return n
                    return map_term(t, f)
                for fi, v in he.state.items():
                    state[fi] = tr(v)
                e.partial |= set(getattr(he, 'partial', set()))
                e.nested = getattr(e, 'nested', set()) | set(getattr(he, 'nested', set()))
                for gd in he.guards:
                    guards.append(gmap(gd, tr))
                for oc in he.opaque:
                    toc = tr(oc)
                    if toc not in e.opaque:
                        e.opaque.append(toc)
        own = self.fn_guards(g)
        e.state = state
        e.guards = []
        for gd in own + guards:
            if gd not in e.guards:
                e.guards.append(gd)
        return e

    def _nested_target(self, c, me):
        """index k when call c applies a mutator of field k's own (modelled) type to `&mut self.k`; None otherwise"""
        if not (c.path in self.prog.pdb.bodies and c.args and c.argtys and str(c.argtys[0]).startswith('&mut')):
            return None
        a0 = c.args[0]
        while tag(a0) == 'deref':
            a0 = a0[1]
        if not (tag(a0) == 'field' and a0[1] == me and isinstance(a0[2], int) and a0[2] < self.sm.nfields):
            return None
        b = self.prog.pdb.bodies[c.path]
        ty = str(self.sm.fields[a0[2]]['ty'])
        if b.impl and b.impl['self_ty'] == ty and ty in self.prog.pdb.adts and ty != self.path:
            return a0[2]
        return None

    def _sub_model(self, k):
        """ObjModel of the type of field k (an embedded distribution), or None"""
        if not hasattr(self, '_subs'):
            self._subs = {}
        ty = str(self.sm.fields[k]['ty'])
        if ty not in self._subs:
            m = None
            try:
                from .structs import StructModel
                smk = StructModel(self.prog, ty)
                if smk.new is not None and smk.inits is not None:
                    m = ObjModel(self.prog, smk)
            except Exception:
                m = None
            self._subs[ty] = m
        return self._subs[ty]

    def nested_coherent(self, k, got, want):
        """is the literal `got` (field k after mutators of its own type, untouched components marked field(prev, j)) the object `want`
        = T::new(args) that new() stores?  (True, '') / (False, why) / (None, why-not-read).  An untouched component is right when the
        constructor's initialiser for it does not depend on T::new's arguments at all, or only on arguments that are constants in `want`
        (by induction the previous object was T::new of the previous arguments, which agree there)."""
        sub = self._sub_model(k)
        want = strip_sites(want)
        if sub is None:
            return None, 'type of the embedded object not modelled'
        if not (tag(got) == 'agg' and got[1] == 'adt' and got[2] == sub.path):
            return None, 'embedded object not read'
        lit = tag(want) == 'agg' and want[1] == 'adt' and want[2] == sub.path and len(want[3]) == len(got[3])
        if not lit and not (tag(want) == 'call' and want[1] == sub.path + '::new'):
            return None, 'constructor call of the embedded object not read'
        mapping = {} if lit else {sub.sm.new_arg(i + 1): a for i, a in enumerate(want[2])}

        def variable(t_):
            return any(tag(z) in ('arg', 'field', 'local', 'index', 'item', 'upvar') for z in subterms(t_))
        for j, comp in enumerate(got[3]):
            if lit:
                exp_j = self.clean(want[3][j])
            else:
                init = sub.inits.get(j)
                if init is None:
                    return None, 'initialiser of component %d not read' % j
                exp_j = self.clean(fold(self.prog.inline(subst(init, mapping), depth=2)))
            untouched = tag(comp) == 'field' and comp[2] == j and not (tag(comp[1]) == 'agg')
            if untouched:
                if not variable(exp_j):
                    continue          # the same constant for every parameter value: by induction the previous object holds it too
                return False, 'component `%s` of the embedded %s is left as it was, but new() derives it as %s' % (
                    sub.sm.fname(j), short(sub.path), show(exp_j)[:40])
            if self.clean(comp) != exp_j:
                return False, 'component `%s` of the embedded %s becomes %s where new() stores %s' % (sub.sm.fname(j), short(sub.path), show(comp)[:50], show(exp_j)[:50])
        return True, ''

    def _is_self(self, t, me):
        """`self`, or the result of a chained mutator of the same type (they return `self`)"""
        while tag(t) == 'call' and t[1] in self.prog.pdb.bodies and self.is_mutator(t[1]) and t[2]:
            t = t[2][0]
        return t == me

    # ------------------------------------------------------------------ expectation: what new() would store
    def expected(self, me, state):
        """field -> term new() would store when called with the current parameters: parameter fields written by the mutator take
        their new value, the others the value `self` holds"""
        mapping = {}
        for fi, al in self.sm.param_of.items():
            na = self.sm.new_arg(al)
            mapping[na] = state.get(fi, ('field', me, fi, self.sm.fields[fi]['ty']))
        return {i: subst(t, mapping) for i, t in self.inits.items()}, mapping
