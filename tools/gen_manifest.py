#!/usr/bin/env python3
"""Regenerates MANIFEST.json from tools/manifest_data.py (claimed checks + not_applicable reasons)."""
import json, os, sys
VERIF = os.path.dirname(os.path.dirname(os.path.abspath(__file__)))
sys.path.insert(0, os.path.join(VERIF, 'tools'))
import manifest_data as md

ids = [json.loads(l)['id'] for l in open(os.path.join(VERIF, 'properties.jsonl'))]
checks = []
for pid in ids:
    c = md.CHECKS.get(pid)
    if not c:
        continue
    checks.append({
        'property_id': pid,
        'quick_cmd': './check %s --tier quick' % pid,
        'thorough_cmd': './check %s --tier thorough' % pid,
        'evidence_file': '/verif/evidence/%s.json' % pid,
        'replay_cmd_template': './check %s --explain {path}' % pid,
        'engine': c.get('engine', 'cva'),
        'level_claimed': {'category': c.get('category', 'other'), 'text': c['text'], 'design_ref': c['design_ref']},
        'level_note': c['note'],
        'technique': c['technique'],
    })
na = [{'property_id': pid, 'reason': md.NOT_APPLICABLE.get(pid, 'check not built yet; see DESIGN.md section 4')}
      for pid in ids if pid not in md.CHECKS]
m = {
    'version': 1,
    'setup_cmd': 'cd /verif/driver && CARGO_NET_OFFLINE=true cargo build --offline',
    'hooks': {
        'guard': 'compute_verif',
        'enable': 'no hooks are needed: checks analyse the MIR of /repo\'s working tree as it is (cargo +nightly check --lib under the driver/ rustc wrapper); the guard name is reserved and unused',
        'baseline_off_cmd': 'cd /repo && cargo test --workspace --no-fail-fast --offline',
        'source_commits': [],
        'add_only': True,
    },
    'engines': md.ENGINES,
    'checks': checks,
    'not_applicable': na,
    'notes': md.NOTES,
}
json.dump(m, open(os.path.join(VERIF, 'MANIFEST.json'), 'w'), indent=1)
print('MANIFEST: %d checks, %d not_applicable' % (len(checks), len(na)))
