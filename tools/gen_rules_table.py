#!/usr/bin/env python3
"""Regenerate the table of DESIGN.md section 9.2 (rules per property, instances on the current tree) from evidence/<ID>.json.
usage: tools/gen_rules_table.py   (run after `./check all`)"""
import json, os, re, sys
V = os.path.dirname(os.path.dirname(os.path.abspath(__file__)))
rows = ['| prop | rules (instances) |', '|------|-------------------|']
for i in range(1, 21):
    pid = 'C%02d' % i
    p = os.path.join(V, 'evidence', pid + '.json')
    if not os.path.exists(p):
        continue
    e = json.load(open(p))
    rules = e.get('coverage', {}).get('rules', {})
    parts = []
    for name, r in rules.items():
        n = r.get('obligations', 0)
        if name in ('coverage-floor',) or n == 0:
            continue
        parts.append('`%s`%s' % (name, ' (%d)' % n if n > 1 else ''))
    rows.append('| %s | %s |' % (pid, ', '.join(parts)))
table = '\n'.join(rows)
d = os.path.join(V, 'DESIGN.md')
s = open(d).read()
m = re.search(r'(### 9\.2 Rules per property \(instances on the current tree\)\n\n)(\| prop \|.*?\n)(\n)', s, re.S)
if not m:
    sys.exit('section 9.2 table not found')
s = s[:m.start(2)] + table + '\n' + s[m.end(2):]
open(d, 'w').write(s)
print('9.2 regenerated: %d rows' % (len(rows) - 2))
