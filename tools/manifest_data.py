NOTES = ('Technique family: static analysis only. Every check rebuilds a program database (MIR at opt-level 0, resolved '
         'callees) from /repo\'s working tree with a rustc_private driver and decides repository-specific rules over it; '
         'nothing from /repo is executed. Verdict policy: VIOLATION only for a positive refutation (with the reason, and a witness input where the '
         'engine produces one); obligations the engines cannot decide are printed as NOT-DECIDED, recorded in the evidence and do not alarm '
         '(behaviour-preserving rewrites must stay silent); anchors that disappear fail the coverage floor. See DESIGN.md section 9.')

ENGINES = [
    {'name': 'driver', 'path': 'driver/', 'serves_properties': [], 'kind_free_text': 'rustc_private MIR dumper (RUSTC_WORKSPACE_WRAPPER)'},
    {'name': 'cva', 'path': 'cva/', 'serves_properties': [], 'kind_free_text': 'Python analyses over the PDB: value-numbered terms, CFG/dominators/guards, element abstraction (E-WIRE), unrolled-kernel coverage (E-IDX), ...'},
]

CHECKS = {
    'C04': {
        'category': 'other',
        'text': 'Static proof, for every length and operand form, of the element-wise clause: each of the 122 operator impls evaluates '
                'under the element abstraction to exactly op(elem(self), elem(rhs)) in operand order; each of the 53 unrolled kernels '
                'matches the W-way-unroll + remainder idiom whose coverage lemma shows every index of 0..n is written exactly once with '
                'the same scalar expression; map wrappers apply the f64 method of their name; length/shape asserts dominate; log-domain '
                'reductions are max-shifted; Matrix results keep the receiver shape. Rounding bounds of reductions are not decided.',
        'design_ref': 'DESIGN.md 4.4, 3 (E-WIRE, E-IDX), appendix A',
        'note': 'Trusted: rustc MIR, the std-callee summary table in cva/elem.py and cva/ir.py, IEEE-754 commutativity of + and *, '
                'no fast-math in Rust f64. Only the default-feature lib target is analysed.',
        'technique': 'abstract interpretation over MIR (element abstraction) + loop-idiom coverage lemma + dominating-guard check',
    },
}

CHECKS['C12'] = {
    'category': 'other',
    'text': 'Exhaustive abstract interpretation: the classifier and the four dispatchers touch operand shapes only through equalities '
            'among {r1,c1,r2,c2,1}; all 52 set partitions are enumerated and for each the outcome (value/panic) and the symbolic result '
            'shape must equal the NumPy rule. Operand order and operation of every value-returning arm and of the 32 promoted '
            'Matrix/Vector forms are decided with the element abstraction; for each of the 100 (dispatcher, compatible partition) pairs the arm that runs is '
            'abstracted to out[I][J] = m1[a][b] o m2[c][d] (indices in {I,J,0}, ranges and flat strides as dimension classes) and compared with the NumPy pairing; '
            'branch conditions outside the equality language are decided by partition invariance over all shapes <= 5 (refuted with two witness shapes).',
    'design_ref': 'DESIGN.md 4.12, 3 (E-ABS equality partitions, E-WIRE)',
    'note': 'Assumes every dimension is >= 1 (the only order fact used: 0 < dim); loops are skipped during path exploration, so panics '
            'that can only arise from element indexing inside an arm are outside D1. Trusted: Matrix::new(d,r,c) has shape (r,c) or panics (C15).',
    'technique': 'finite abstract domain (equality partitions) enumerated exhaustively over MIR paths + element abstraction',
}

CHECKS['C18'] = {
    'category': 'other',
    'text': 'Invariant proof by induction over mutator histories for the 13 univariate distributions: every setter re-establishes each '
            'derived (cached) field with the constructor\'s initialiser, validates with the constructor\'s guards, and update() leaves every field '
            'as new() would store it for the same values under new()\'s guards (no validation against a stale sibling); mutators are abstracted to '
            'object-state transformers (field -> final term, guards of the normal return) over field stores, whole-object stores, constructor '
            'calls and composed setters, read through straight-line helpers; structs are Copy with private '
            'fields, the crate has no statics, and sample() reaches no nondeterminism source other than alea\'s seeded generators.',
    'design_ref': 'DESIGN.md 4.18, 3 (E-GRD field invariants, cache-coherent, setter-agree, update-order)',
    'note': 'Trusted: alea 0.2.2 reproducibility given its seed. Value-level validity of accepted parameters (e.g. sigma = 0) is not decided.',
    'technique': 'typestate / field-invariant analysis over MIR (object-state transformers of mutators compared with the constructor: final field terms and return guards) + call-graph allow-list',
}

CHECKS['C19'] = {
    'category': 'other',
    'text': 'Provenance/effect proof on MIR: outputs of bootstrap, jackknife, shuffle and shuffle_two contain only copies of input elements; '
            'the only mutation of the shuffled copies is slice::swap with identical index operands for the paired arrays (permutation by '
            'construction); push counts, resample lengths, leave-one-out split points and the index distribution bounds are matched '
            'symbolically; the sampler\'s RNG call is defined for every state its constructor admits (length-1 data). Equal likelihood of '
            'positions is not decided.',
    'design_ref': 'DESIGN.md 4.19, 3 (E-WIRE provenance, effects, E-GRD precondition)',
    'note': 'Trusted: alea preconditions as quoted in cva/props/c19.py; std summaries of to_vec/split_at/split_first/swap.',
    'technique': 'provenance (element abstraction) + effect analysis (only swap mutates) + symbolic length/index matching + precondition vs field invariant',
}

CHECKS['C17'] = {
    'category': 'other',
    'text': 'Guard/dataflow decision of the structural clauses: Box-Cox transforms reject exactly through a positivity test of the very value '
            'they take ln/powf of (domain x + shift > 0) and return ln(v) / (v^lambda - 1)/lambda on the lambda == 0 split; logit\'s ln is '
            'dominated by the [0,1] range test; softmax exponentiates (element - max) only and normalises with one common exponential; '
            'logistic\'s closed form has range [0,1] and is non-decreasing (interval + monotonicity abstract evaluation). '
            'binom_coeff exactness and the reflection identity to rounding are not decided.',
    'design_ref': 'DESIGN.md 4.17, 3 (E-GRD guard-use, E-WIRE, E-ABS)',
    'note': 'Interval reasoning is over the reals (underflow of exp to 0 is outside the clause). Trusted: std summaries.',
    'technique': 'dominating-guard analysis + element abstraction + interval/monotonicity abstract interpretation of closed forms',
}

CHECKS['C16'] = {
    'category': 'other',
    'text': 'Trip-count abstract interpretation: the bracketing index is bounded by its initial value plus the trip count of the scan loop; any '
            'branch outcome on it that is unsatisfiable under that bound, and any mode handler reachable only through such a branch, is reported '
            '(this is what made the right-hand Fill/Panic/Extrapolate handling dead). Also: no definitely-out-of-bounds element access, both '
            'extrapolation formulas anchored at the first/last segment, the in-range value is the convex combination of neighbouring knots with '
            'one common k, and the checked variant reaches the unchecked one only through its length assert and adjacent-pair ordering loop.',
    'design_ref': 'DESIGN.md 4.16, 3 (E-ABS trip-count bound, must-check)',
    'note': 'Bounds are polynomials in len(x) assuming len(x) >= 1; data-dependent float comparisons are treated as satisfiable both ways.',
    'technique': 'counter-bound abstract interpretation + dead-branch/reachability + dominating-guard and term-shape matching on MIR',
}

CHECKS['C15'] = {
    'category': 'other',
    'text': 'Structural invariants decided on MIR: every construction of a Matrix / wholesale write of its fields is one of the audited sites and '
            'locally re-establishes rows*cols == len (product assert, divisibility for inferred dimensions, length-preserving transpose + swap); '
            'all 2-D accesses obey the row-major stride rule with bounds asserts in the Index impls; transpose, layout conversions, concatenation/'
            'repetition and column extraction have the defining index signature; eye/diag/toeplitz/vandermonde/design have their pattern; arange/'
            'linspace counts follow the documented end-point convention; rotation literals satisfy cw = ccw^T, R^T R = I, det = 1 symbolically; '
            'approximate equality is sign-aware. Arbitrary operation sequences are covered inductively, not by a lock-step model.',
    'design_ref': 'DESIGN.md 4.15, 3 (E-IDX, E-GRD must-check, E-TAB)',
    'note': 'Trusted: approx_eq 0.1.8 rel_diff is sign-blind (quoted); serde-derived deserialisation is outside the property; dims >= 1 for column offset 0.',
    'technique': 'typestate/invariant audit of all writers + affine access-map (stride) analysis + index-signature matching + symbolic polynomial algebra on literals',
}

CHECKS['C05'] = {
    'category': 'other',
    'text': 'Symbolic proof for every shape: matmul and matmul_blocked, specialised to each of the four transpose-flag combinations, evaluate in '
            'an orientation algebra ((XY)^T = Y^T X^T) to op(A).op(B) with the right output shape; the product kernel is recognised from its affine '
            'access maps (stride = column count, loop ranges = factor shapes, one contracted index, tile-coverage lemma for the blocked variant) and '
            'the inner dimensions are asserted equal before the first access. The 64 Dot methods are matched against flags / vector promotion / '
            'inner-dimension assert / outer-dimension result shape. Rounding is outside the property for integer entries.',
    'design_ref': 'DESIGN.md 4.5, 3 (E-IDX contraction signatures, orientation algebra)',
    'note': 'Trusted: transpose/to_vec transfer functions (their own index signatures are decided in C15); tile lemma: for B >= 1 the ranges '
            '[oB, min(oB+B, L)) for o in 0..L/B+1 partition [0, L).',
    'technique': 'flag specialisation of MIR + affine access maps -> contraction signature + symbolic matrix-expression algebra',
}

CHECKS['C11'] = {
    'category': 'other',
    'text': 'Structural clauses decided on MIR: every Cholesky pivot square root is dominated by `pivot > 0` on that value (non-PD input is '
            'rejected, no NaN factor); slice-level and Matrix-level LU, LU-solve, substitutions and structural predicates have identical abstract '
            'skeletons (2-D accesses, loop ranges, swaps, data-dependent branches); all accesses obey the row-major stride rule; Cholesky writes '
            'only j <= i and the substitutions read the strict lower/upper part; reads of the set_len buffers hit only already-written indices; '
            'det = prod(diag(LU)) * parity. L.L^T = A, P.A = L.U and the parity routine itself are not decided.',
    'design_ref': 'DESIGN.md 4.11, 3 (E-GRD guard-use, E-SIB, E-IDX)',
    'note': 'E-SIB is only V-sound relative to the pinned pair agreeing semantically (read and confirmed); precondition asserts are excluded from the comparison.',
    'technique': 'dominating-guard analysis + sibling skeleton comparison over affine access maps + loop-bound reasoning',
}
CHECKS['C01'] = {
    'category': 'other',
    'text': 'Must-pass-through/typestate clauses for all solver entry points: the Cholesky route is entered only under the predicate on the same '
            'matrix and every use of a Cholesky factor is guarded by a success test of the pivot-checking factorisation whose failure edge '
            'reaches pivoted LU (so the answer cannot depend on the routing predicate); right-hand-side column i is solved into solution column '
            'i (layout algebra over transposes, row<->column-major helpers, row slices / chunks, get_col_as_vector); Matrix solvers route through Matrix::lu; '
            'LU / LU-solve / substitution siblings agree; inverses are solves against an identity; the symmetry test behind the routing predicate is scale '
            'consistent with an O(eps) relative tolerance; no solver branches on a scale-dependent threshold. Residual and conditioning bounds are not decided.',
    'design_ref': 'DESIGN.md 4.1, 3 (E-GRD must-check, panic-dependence, E-IDX layout typestate, E-SIB)',
    'note': 'Necessary conditions only; relies on C11 pivot-guard for the factoriser and C15 for the layout conversions and constructors.',
    'technique': 'must-pass-through on the CFG with guard terms + layout typestate over resolved calls + sibling skeletons',
}

CHECKS['C02'] = {
    'category': 'other',
    'text': 'Refutation/structural clauses decided on closed forms extracted from MIR: scale-type (dimensional) inference shows pdf : X^-1, mean : X, '
            'var : X^2, cdf : 1, ln_pdf : ln X^-1 for the seeded families with exponents polynomial in the dimensionless parameters; every bounded-support '
            'pdf/pmf returns 0 under a test of its argument with no narrowing cast before it; no integer division under an int->float cast in Mean/'
            'Variance; pdf/pmf non-negative under constructor invariants (interval domain, reported only when proved); overriding ln_pdf == ln(pdf) by '
            'log-normalisation; named constants equal what their name states; the Poisson factorial is formed consistently in pmf and sampler. '
            'The closed forms of pdf/pmf, mean and variance of the 13 univariate laws are compared with a table of textbook formulas by identity '
            'testing of the extracted expression (39 instances; alternatives of several return sites carry their dominating comparisons, evaluation '
            'follows IEEE arithmetic, the grid includes overflow regimes, far tails and points outside the support); the multivariate normal pdf and '
            'ln_pdf are brought to a log-linear normal form over {d ln 2pi, ln det, quadratic form}. Total mass as an integral and the MVN '
            'quadratic form\'s value are not decided.',
    'design_ref': 'DESIGN.md 4.2, 3 (E-SYM, E-GRD support-guard, E-ABS, E-TAB)',
    'note': 'E-SYM is V-sound only (a conflict refutes homogeneity); assumes no cancellation invisible to the algebra. Seeds in cva/props/c02.py.',
    'technique': 'dimension (homogeneity) type inference over abstractly-interpreted closed forms + identity testing of extracted closed forms against a formula table + control-dependence guard rules + interval abstract interpretation',
}

CHECKS['C03'] = {
    'category': 'other',
    'text': 'The distributional statement (DKW band) is NOT decided. Decided necessary conditions: the 3x128 Ziggurat literals satisfy their defining '
            'relations and are read at one common layer; every sqrt/ln/powf argument in the 13 sampler bodies is in range under the invariants kept by '
            'all writers plus dominating guards (violations need a concrete witness parameter, e.g. alpha = 1/6 for the unboosted gamma sampler); the '
            'RNG precondition follows from the field invariant; bulk helpers return exactly n draws / the requested shape; sample() of the location/'
            'scale/rate families has scale type X; every rejection loop has an exit depending on a draw made in the loop; discrete samplers return '
            'integer-valued floats by construction.',
    'design_ref': 'DESIGN.md 4.3, 3 (E-TAB, E-ABS interval domain with witnesses, E-SYM, dependency, integrality domain)',
    'note': 'Trusted: alea::f64() in [0,1); embedded standard samplers (Normal(0,1), Uniform(0,1)) are dimensionless. PTRS/BTPE constants are not decided.',
    'technique': 'constant-table validation + interval abstract interpretation with witness generation + dependency analysis of loop exits + scale-type inference',
}

CHECKS['C08'] = {
    'category': 'other',
    'text': 'Structural clauses on closed forms extracted from MIR (loops as accumulators, iterator chains, Welford aggregates): Bessel divisor of the '
            'sample vs population statistics; scale types mean X, var X^2, std X, cov XY, min/max X; covariance estimators centre at the mean or use '
            'shifted data with the (sum dx)(sum dy)/n correction; online co-moment recurrences form one deviation before and one after the running-mean '
            'update (statement order in the CFG; Welford\'s update is the reference sibling); argmin/argmax replace on a strict test (first occurrence); '
            'min/max fold f64::min/max; Vector/Matrix statistics delegate to the free functions; mean = sum/len. Rounding/stability are not decided.',
    'design_ref': 'DESIGN.md 4.8, 3 (E-SYM, E-WIRE, sibling rules)',
    'note': 'hist_bin_centers on non-uniform edges and the exact Welford coefficients are outside the rules.',
    'technique': 'abstract interpretation to closed forms + scale-type inference + term-shape rules + statement-order analysis of recurrences',
}

CHECKS['C20'] = {
    'category': 'other',
    'text': 'For both kernels and all 12 forward impls: the scalar closed form, as a function of the squared distance r >= 0 under the constructor '
            'invariants (var, alpha, length_scale > 0, checked), is positive, non-increasing in r and equals var at r = 0 (interval + monotonicity '
            'abstract evaluation); x and y enter only through (x-y)^2 resp. through |x|^2 (column) + |y|^2 (row) - 2 x.y^T, giving symmetry and the '
            'n_x x n_y shape; each matrix form is the same operator tree as the scalar form over the distance leaf; scale type of the result is V. '
            'Positive semi-definiteness of Gram matrices is a theorem about the analytic form and is not decided.',
    'design_ref': 'DESIGN.md 4.20, 3 (E-ABS monotonicity, E-SIB, E-SYM)',
    'note': 'Monotonicity reasoning is over the reals. Broadcasting of column + row is C12\'s classifier.',
    'technique': 'interval + monotonicity abstract interpretation of closed forms, operator-tree sibling comparison, term-shape matching',
}

CHECKS['C13'] = {
    'category': 'other',
    'text': 'Dependency/wiring clauses decided on MIR: the lag reaches acovf/acf only through abs() (a proof that both are even); acovf : X^2, acf : 1; '
            'acf is the lag-k over the lag-0 form of the same centred products (acf(.,0) = 1 structurally); differencing is out[i] = v[i+1] - v[i]; '
            'AR::fit sets intercept = mean(data) and coeffs = invert_matrix(toeplitz(r[..p])).r[1..=p] over acf of the (possibly shifted) series for lags 0..=p '
            '(slices and sizes in normal form over the order p), reversed an odd number of times; forecasts use the raw data only as (value - intercept) and add the intercept back (necessary and sufficient for shift equivariance). '
            '|acf| <= 1 and convergence of forecasts are numerical and not decided.',
    'design_ref': 'DESIGN.md 4.13, 3 (E-WIRE dependency signatures, E-SYM, orientation)',
    'note': 'The reversal-parity device counts rev() adapters and reverse() calls between the matmul result and the stored coefficient field. Autocorrelations not obtained from acf() are not decided.',
    'technique': 'dependency analysis (uses only through abs) + closed-form extraction with shift-weight rule + term-shape matching of the Yule-Walker pipeline',
}

CHECKS['C07'] = {
    'category': 'other',
    'text': 'Each rule is read from MIR as a linear functional of the integrand and compared with its definition: trapz has dx = (b-a)/n, interior '
            'nodes a + k dx for k = 1..n-1 and end points with weight 1/2 (total weight n dx: exact for constants); the Gauss-Legendre literals satisfy '
            'the even-moment conditions up to degree 18 in rational arithmetic and quad5 has the symmetric-pair shape (together: exact up to degree 19 '
            'on any interval, up to rounding); Romberg has the trapezoid refinement on odd nodes and Richardson factors 4^m - 1; the sampled rule pairs '
            '(y[i]+y[i-1])/2 with x[i]-x[i-1] under a length assert. Error bounds for smooth integrands and the stopping rule are not decided.',
    'design_ref': 'DESIGN.md 4.7, 3 (E-TAB, E-IDX index relations)',
    'note': 'Tolerance 5e-15 on the moment conditions (literals carry 16 digits).',
    'technique': 'constant-table validation in exact arithmetic + extraction of nodes/weights of the linear functional from closure terms',
}

CHECKS['C14'] = {
    'category': 'other',
    'text': 'Symbolic proof of the algebraic identity behind least squares: fit stores coef = inv(V^T V).(V^T y) (orientation algebra over matmul flags, '
            'xtx, invert_matrix, vandermonde) with consistent row-count arguments and shapes under the length assert; the Vandermonde columns are '
            'ascending powers from 0; predict is a Horner fold acc*x + c over the coefficients reversed an odd number of times, once per x. '
            'Conditioning of the normal equations (numerical optimality) is not decided.',
    'design_ref': 'DESIGN.md 4.14, 3 (E-IDX orientation algebra, reversal parity)',
    'note': 'Relies on C05 (matmul = op(A).op(B)), C01 (invert_matrix = solve against I) and C15 (vandermonde pattern).',
    'technique': 'symbolic matrix-expression algebra over resolved calls + fold/closure shape matching',
}

CHECKS['C06'] = {
    'category': 'other',
    'text': 'Structural necessary conditions decided on MIR: the ridge penalty adds alpha*coef[i] (i >= 1) to the gradient and alpha to the information '
            'diagonal; gradient = -X^T[w (y-mu) dmu/var] and information = X^T diag(w dmu^2/var) X as closed forms (weights included); eta adds the '
            'offsets in fit and predict; the step is coef - solve(information, gradient); Err is returned exactly when the iteration budget is '
            'exhausted without convergence; the Gaussian deviance has scale type Y^2 (RSS); dispersion, covariance = dispersion * inverse '
            'information and standard errors = sqrt(diag) are wired as stated; design-matrix accesses obey the stride rule. Convergence to the MLE and '
            'the link/variance tables of the non-Gaussian families are not decided.',
    'design_ref': 'DESIGN.md 4.6, 3 (E-WIRE dependency signatures, E-GRD must-check, E-SYM)',
    'note': 'The deviance/information stored after the loop use mu from before the last update (an O(tolerance) effect): observed, not armed.',
    'technique': 'effect summaries under the element abstraction + term-shape/guard matching of the scoring loop + per-variant scale typing',
}

CHECKS['C10'] = {
    'category': 'other',
    'text': 'For every objective and step budget, structurally: the update statements of Adam (m, v, bias-corrected theta update, step counter) and SGD '
            '(velocity, theta, update order, look-ahead gradient point under the nesterov flag) are extracted from MIR, canonicalised and compared with '
            'the published recurrences; the loops leave only on t >= maxsteps or on the convergence flag, which is set only under max relative '
            'parameter change < EPSILON; no nondeterminism source is reachable; LM overwrites the parameters only under rho > 0 with rho\'s numerator '
            '|r|^2 - |r_new|^2 at the proposal, refreshes J, J^T J, J^T r, r on acceptance and returns |r|^2/(n-p) * inv(J^T J). '
            'LM damping schedule and convergence are not decided.',
    'design_ref': 'DESIGN.md 4.10, 3 (E-WIRE dependency signatures, must-check)',
    'note': 'Automatic-differentiation wrappers (reverse::Var operator impls, val(), grad().wrt()) are mapped to their arithmetic / treated as opaque pure functions.',
    'technique': 'canonical-form comparison of update statements extracted from MIR + CFG exit/guard analysis + call-graph deny-list',
}

CHECKS['C09'] = {
    'category': 'other',
    'text': 'The structural clauses of the property are decided, and the accuracy figures are refuted (never proved) for loop-free branches only: the accuracy of '
            'a series summed in a loop (the Lanczos sums) over a continuum of arguments is NOT decided. Decided on MIR terms: erf returns -erf(-x) for x < 0 (odd bit for '
            'bit); its closed form on x >= 0 stays inside [-1, 1] by interval branch-and-bound over [0, inf) (so |erf| <= 1); beta(a,b) is '
            'gamma(a)*gamma(b)/gamma(a+b) (three evaluations with these arguments; exactly symmetric because IEEE * and + commute); below its threshold '
            'digamma(x) = digamma(x+1) - 1/x (the recurrence holds by construction there) and its asymptotic branch is ln x - 1/(2x) - sum B_2k/(2k x^2k) '
            'with the exact Bernoulli numbers for consecutive k; gamma and ln_gamma reflect through pi/(sin(pi z) gamma(1-z)); the Lanczos main branch is '
            'sqrt(2pi) t^(z-1/2) e^-t A(z) and ln_gamma is the logarithm of the same form with the same t (log-linear normal form), the series divides '
            'coefficient k by z-1+k.',
    'design_ref': 'DESIGN.md 4.9 (as revised), 9.8',
    'note': 'A change of a Lanczos coefficient, of g or of the number of Lanczos terms is invisible to these rules (loop-carried value). A changed '
            'Abramowitz-Stegun coefficient, digamma threshold or added closed-form fast path is seen only if its error at the witness arguments exceeds the refutation margin.',
    'technique': 'term-shape rules on MIR closed forms + interval branch-and-bound abstract interpretation + exact rational table (Bernoulli numbers) + log-linear normal form comparison of sibling functions',
}

NOT_APPLICABLE = {
}

# ---- round 9 additions: rules decided by witness evaluation (cva/precond.py); texts appended so that the claims stay next to the rules
_R9_ENGINE = ('witness evaluation over MIR (can-return relation on CFG + call graph; branch conditions and returned terms evaluated for exact '
              'witness inputs, frame by frame, nothing executed)')
_R9 = {
    'C01': ' Route-choosing predicates inside the slice solvers are part of the scale-consistency scan (no absolute threshold decides a route).',
    'C02': ' total: no evaluation point on which a pdf/pmf/ln_pdf cannot return (callee preconditions included), refuted on exact witnesses; '
           'the textbook grid includes shape = 1 and boundary points (0 or the formula\'s limit accepted at an edge whose membership differs between sources).',
    'C03': ' total: constructors accept every valid parameter setting (equal bounds, p in {0,1}) and sample() can return for every object its constructor admits; '
           'support-witness: the expression Uniform::sample returns stays in [lower, upper] in IEEE arithmetic for u in [0,1), degenerate bounds included; '
           'literal-coherent: struct literals outside constructors carry derived fields of their own parameters.',
    'C05': ' dot-shape: on all conformable shape witnesses 1..3 the return site taken yields a matrix of the shape the definition gives (shortcuts for special operands included).',
    'C06': ' dispersion-table: has_dispersion per family variant read under the discriminant (one-parameter laws false); setters store their argument itself; '
           'value filters on the way keep every finite observation.',
    'C07': ' total: trapz, romberg and quad5 can return for every interval (a < b, a > b, a = b) with at least one panel.',
    'C08': ' first-occurrence follows delegation to helpers and std min_by/max_by (last maximum); merge: a routine joining two (count, mean, M2) aggregates is '
           'evaluated on exact partitions of equal and unequal size; value filters keep every finite observation.',
    'C09': ' self-call-identity: every branch that reduces through gamma / ln_gamma itself equals the true function at exact witnesses of its own conditions; '
           'branch-accuracy: every loop-free return site of gamma, digamma and erf is evaluated at exact witnesses of its conditions against the true function '
           '(refuted above 10x the stated relative / 2x the stated absolute figure); the accuracy of the Lanczos sums (loop-carried) is not decided.',
    'C12': ' compatible-returns: every compatible (matrix, vector-as-row) shape witness 1..3 can return through promotion, fast paths and dispatch.',
    'C13': ' Value filters on the way from fit / acf keep every finite observation.',
    'C14': ' data-filter: a value filter on the way from fit keeps every finite observation (is_normal drops 0.0).',
    'C15': ' grid: count and elements of arange / linspace evaluated on exact dyadic witnesses over the element abstraction (positions, branch-assigned locals with their conditions, wrappers).',
    'C16': ' last-knot: a bracket index counted over the whole table (partition_point, also in a helper) must not be tested against n to mean "above"; '
           'the sortedness check is also read as zipped views with their lengths.',
    'C17': ' rejects: logit cannot certainly return for arguments outside [0,1] (through helpers and shadowed copies); total on the stated domains of logit, logistic and Box-Cox.',
    'C18': ' literal-coherent: struct literals of a distribution outside its constructor carry derived fields of their own parameters.',
    'C19': ' total: every resampler can return for every non-empty input (a one-point data set included).',
}
for _k, _t in _R9.items():
    if _k in CHECKS:
        CHECKS[_k]['text'] = CHECKS[_k]['text'].rstrip() + _t
        if _k not in ('C01', 'C13', 'C18') and 'witness evaluation' not in CHECKS[_k]['technique']:
            CHECKS[_k]['technique'] = CHECKS[_k]['technique'] + ' + ' + _R9_ENGINE

# ---- round 10 additions
_R10 = {
    'C01': ' pivot-guard: every pivot square root of try_cholesky is dominated by `pivot > 0` being true (zero and NaN pivots fall back to pivoted LU).',
    'C02': ' At every grid point of pdf/pmf the return sites reachable for that point are evaluated as well (path-sensitive: disjunctive support guards).',
    'C06': ' NaN polarity of the convergence test also through return sites (`if change >= tol { return false } true`).',
    'C08': ' every-sample: every return site of a one-sample update helper counts the sample; raw-moment-difference: no variance / covariance / standard deviation '
           'is a raw second moment minus a product of raw first moments (closed forms of all eight routines).',
    'C13': ' lag-count: the summation range of acovf holds max(0, n - |k|) terms on exact (n, k) witnesses, however it is indexed.',
    'C17': ' binom: any overflow bail-out is evaluated under the recurrence invariant c = C(n, i-1) for every (n, k) with n <= 70 whose coefficient fits in 64 bits.',
    'C18': ' Mutators of an embedded object\'s own type applied to a field (`self.sampler.set_alpha(v)`) are composed: the field becomes a literal with untouched '
           'components marked, and equality with what new() stores is shown by induction over mutator histories.',
}
for _k, _t in _R10.items():
    if _k in CHECKS:
        CHECKS[_k]['text'] = CHECKS[_k]['text'].rstrip() + _t

# ---- late additions (rounds 10-12)
_R12 = {
    'C04': ' norm is evaluated on constant-vector witnesses (the zero vector included: a norm that scales by the largest magnitude divides 0 by 0 there).',
    'C07': ' trapezoid-nodes: the iterator trapz sums over is counted on exact (a, b, n) witnesses, rounding-sensitive panel counts included (n - 1 interior nodes).',
    'C14': ' row-length: every row of vandermonde receives exactly n entries for n = 1, 2, 3, 4, 7 (pushes per iteration of the row loop counted).',
}
for _k, _t in _R12.items():
    if _k in CHECKS:
        CHECKS[_k]['text'] = CHECKS[_k]['text'].rstrip() + _t
