#!/usr/bin/env python3
"""Mutant self-test driver (speaks about the checker, never about /repo).

usage: tools/mutant.py [PROP ...]        run all mutants/<PROP>/*.json (default: every property)
       tools/mutant.py --one FILE.json   run one
       tools/mutant.py --equiv [PROP ..] run equivalents/<PROP>/*.json: behaviour-preserving variants ("equivalent": true) on which
                                         the listed checks must stay silent (status `silent`; `false-alarm` otherwise)

A mutant file: {"property": "C04", "desc": "...", "edits": [{"file": "src/..", "find": "...", "replace": "...", "nth": 1}],
                "expect": ["rule-or-key-substring", ...]}
Each mutant is applied to a scratch copy of /repo (under $TMPDIR, removed afterwards), the PDB is rebuilt there and
the property's check is run with --repo; the mutant is `caught` if the check exits 1 and every expected substring
occurs in the VIOLATION output.  Output: one line per mutant + summary JSON on the last line."""
import json, os, subprocess, sys, tempfile, glob, shutil

VERIF = os.path.dirname(os.path.dirname(os.path.abspath(__file__)))
REPO = os.environ.get('CVA_REPO', '/repo')


def apply_edits(root, edits):
    for e in edits:
        p = os.path.join(root, e['file'])
        s = open(p).read()
        nth = e.get('nth', 1)
        idx = -1
        for _ in range(nth):
            idx = s.find(e['find'], idx + 1)
            if idx < 0:
                return 'find-string not present in %s: %r' % (e['file'], e['find'][:60])
        s = s[:idx] + e['replace'] + s[idx + len(e['find']):]
        open(p, 'w').write(s)
    return None


def run_one(path):
    m = json.load(open(path))
    tmp = tempfile.mkdtemp(prefix='cva-mut-')
    try:
        scratch = os.path.join(tmp, 'repo')
        subprocess.run(['rsync', '-a', '--exclude', 'target', '--exclude', '.git', REPO + '/', scratch + '/'], check=True)
        if m.get('patch'):
            # a unified diff stored next to the json (behaviour-preserving refactorings written by independent agents)
            pr = subprocess.run(['patch', '-p1', '-s', '-i', os.path.join(os.path.dirname(os.path.abspath(path)), m['patch'])], cwd=scratch, capture_output=True, text=True)
            err = None if pr.returncode == 0 else 'patch does not apply: ' + (pr.stdout + pr.stderr)[-200:]
        else:
            err = apply_edits(scratch, m['edits'])
        if err:
            return {'mutant': os.path.relpath(path, VERIF), 'status': 'skipped', 'why': err}
        props = m['property'] if isinstance(m['property'], list) else [m['property']]
        res = {'mutant': os.path.relpath(path, VERIF), 'status': 'caught', 'details': []}
        for prop in props:
            env = dict(os.environ)
            env['CVA_EVIDENCE_DIR'] = os.path.join(tmp, 'evidence')
            r = subprocess.run([os.path.join(VERIF, 'check'), prop, '--repo', scratch], capture_output=True, text=True, env=env)
            out = r.stdout
            if r.returncode == 2:
                res['status'] = 'does-not-build'
                res['details'].append(r.stderr[-400:])
                break
            viol = [l for l in out.splitlines() if 'VIOLATION' in l or l.startswith('  rule=')]
            if m.get('equivalent'):
                # behaviour-preserving variant: the check must stay silent
                if r.returncode != 0 or viol:
                    res['status'] = 'false-alarm'
                    res['details'].append({'prop': prop, 'exit': r.returncode, 'violations': [l.strip() for l in viol][:6]})
                else:
                    res['status'] = 'silent' if res['status'] in ('caught', 'silent') else res['status']
                continue
            missing = [x for x in m.get('expect', []) if x not in out]
            if r.returncode != 1 or missing:
                res['status'] = 'missed'
                res['details'].append({'prop': prop, 'exit': r.returncode, 'missing': missing, 'violations': viol[:6]})
            else:
                res['details'].append({'prop': prop, 'violations': [l.strip() for l in viol if l.startswith('  rule=')][:4]})
        return res
    finally:
        shutil.rmtree(tmp, ignore_errors=True)


def main():
    args = sys.argv[1:]
    files = []
    if args and args[0] == '--one':
        files = args[1:]
    elif args and args[0] == '--equiv':
        props = args[1:] or sorted(os.listdir(os.path.join(VERIF, 'equivalents')))
        for p in props:
            files += sorted(glob.glob(os.path.join(VERIF, 'equivalents', p, '*.json')))
    else:
        props = args or sorted(os.listdir(os.path.join(VERIF, 'mutants')))
        for p in props:
            files += sorted(glob.glob(os.path.join(VERIF, 'mutants', p, '*.json')))
    from concurrent.futures import ThreadPoolExecutor
    with ThreadPoolExecutor(max_workers=int(os.environ.get('CVA_JOBS', '6'))) as ex:
        results = list(ex.map(run_one, files))
    for r in results:
        print('%-14s %s %s' % (r['status'], r['mutant'], json.dumps(r.get('details', r.get('why', '')))[:300]))
    summ = {'mutants': len(results), 'caught': sum(r['status'] == 'caught' for r in results),
            'silent': sum(r['status'] == 'silent' for r in results),
            'false_alarms': [r['mutant'] for r in results if r['status'] == 'false-alarm'],
            'missed': [r['mutant'] for r in results if r['status'] == 'missed'],
            'skipped': [r['mutant'] for r in results if r['status'] in ('skipped', 'does-not-build')]}
    print(json.dumps(summ))
    return 0 if not summ['missed'] and not summ['false_alarms'] else 1


if __name__ == '__main__':
    sys.exit(main())
