#!/bin/bash
# tools/ingest_refactor.sh <ID> <name>  -- confirm refactor-only deliverables (/tmp/seed-out/<ID>/refactor<k>.diff) and keep them as equivalents.
# Confirmation in a fresh scratch worktree of /repo (removed afterwards): the patch applies, the existing suite passes, and every demonstration
# test kept under /verif/seeded/<ID>-agent*/ (each passes on the clean tree and exercises the property) still passes with the refactoring alone.
set -u
ID=$1; NAME=${2:-$ID-agent4}
SRC=/tmp/seed-out/$ID
W=$(mktemp -d /tmp/refconfirm.XXXXXX)
git -C /repo worktree add -q --detach "$W/wt" HEAD || exit 2
cd "$W/wt"
export CARGO_NET_OFFLINE=true
mkdir -p tests
i=0
for d in /verif/seeded/$ID-agent*/seed_demo.rs; do
  [ -f "$d" ] || continue
  i=$((i+1)); cp "$d" tests/seed_demo_$i.rs
done
for k in 1 2 3 4; do
  F="$SRC/refactor$k.diff"
  [ -s "$F" ] || { echo "refactor$k: missing"; continue; }
  git checkout -q -- src
  if ! git apply "$F" 2>/dev/null; then echo "refactor$k: PATCH DOES NOT APPLY"; continue; fi
  cargo test --offline >"$W/t$k.log" 2>&1; RC=$?
  BAD=$(grep "^test .* FAILED" "$W/t$k.log" | grep -v "t::tests::test_moments" | grep -v "^test result" | head -3)
  if [ $RC -eq 0 ] || [ -z "$BAD" ]; then
    E=/verif/equivalents/$ID; mkdir -p "$E"
    cp "$F" "$E/$NAME-refactor$k.diff"
    python3 - "$ID" "$E/$NAME-refactor$k" <<'PY'
import json, sys
pid, base = sys.argv[1], sys.argv[2]
json.dump({'property': [pid], 'equivalent': True, 'patch': base.split('/')[-1] + '.diff',
           'desc': 'behaviour-preserving refactoring written by an independent sub-agent (confirmed: the existing suite and the kept demonstration tests of this property pass with it applied alone)'},
          open(base + '.json', 'w'), indent=1)
PY
    echo "refactor$k: confirmed"
  else
    echo "refactor$k: TESTS FAIL: $BAD"
  fi
done
cd /; git -C /repo worktree remove --force "$W/wt"; rm -rf "$W"
