#!/bin/bash
# tools/ingest_seed.sh <ID> [name]  -- independently confirm a sub-agent's breaking change and keep it under /verif/seeded/
# Confirms in a fresh scratch worktree of /repo (removed afterwards): (1) patch applies and the crate + existing tests pass,
# (2) the demonstration fails with the change, (3) the demonstration passes without it.
set -u
ID=$1; NAME=${2:-$ID-agent1}
SRC=${SRC:-/tmp/seed-out/$ID}
W=$(mktemp -d /tmp/seedconfirm.XXXXXX)
git -C /repo worktree add -q --detach "$W/wt" HEAD || exit 2
cd "$W/wt"
mkdir -p tests; cp "$SRC/seed_demo.rs" tests/seed_demo.rs
export CARGO_NET_OFFLINE=true
echo "== demo WITHOUT the change"
cargo test --offline --test seed_demo >"$W/nochange.log" 2>&1; RC_CLEAN=$?
tail -3 "$W/nochange.log"
echo "== apply patch"
git apply "$SRC/patch.diff" || { echo "PATCH DOES NOT APPLY"; git -C /repo worktree remove --force "$W/wt"; rm -rf "$W"; exit 3; }
echo "== existing suite WITH the change"
cargo test --offline --lib >"$W/suite.log" 2>&1; RC_SUITE=$?
# the suite has randomly flaky statistical tests (t / pareto / exponential test_moments): a failure must reproduce to count
for TRY in 2 3; do
  if [ $RC_SUITE -ne 0 ]; then cargo test --offline --lib >"$W/suite.log" 2>&1; RC_SUITE=$?; fi
done
grep -E "^test result|FAILED" "$W/suite.log" | head -5
echo "== demo WITH the change"
cargo test --offline --test seed_demo >"$W/change.log" 2>&1; RC_CHANGE=$?
grep -E "^test result|panicked|FAILED" "$W/change.log" | head -6
OK=0
if [ $RC_CLEAN -eq 0 ] && [ $RC_CHANGE -ne 0 ] && { [ $RC_SUITE -eq 0 ] || ! grep -q "FAILED" <(grep -v "t::tests::test_moments" "$W/suite.log" | grep "^test .* FAILED" | grep -v "^test result"); }; then OK=1; fi
echo "clean=$RC_CLEAN suite=$RC_SUITE change=$RC_CHANGE confirmed=$OK"
if [ $OK -eq 1 ]; then
  D=/verif/seeded/$NAME; mkdir -p "$D"
  cp "$SRC/patch.diff" "$D/patch.diff"; cp "$SRC/seed_demo.rs" "$D/seed_demo.rs"; cp "$SRC/notes.md" "$D/notes.md" 2>/dev/null
  python3 - "$ID" "$D" <<'PY'
import json, sys, re
pid, d = sys.argv[1], sys.argv[2]
notes = open(d + '/notes.md').read() if __import__('os').path.exists(d + '/notes.md') else ''
meta = {'property': pid, 'origin': 'independent sub-agent given only the property text and a scratch worktree',
        'needs_to_manifest': '(see notes.md)',
        'confirmed': {'how': 'tools/ingest_seed.sh in a fresh scratch worktree of /repo: existing suite (cargo test --offline --lib) passes with the change; '
                             'tests/seed_demo.rs (cargo test --offline --test seed_demo) fails with the change and passes without it',
                      'suite_passes_with_change': True, 'demo_fails_with_change': True, 'demo_passes_without_change': True}}
json.dump(meta, open(d + '/meta.json', 'w'), indent=1)
PY
fi
# optional behaviour-preserving refactoring written by the same agent: keep it as an equivalent (checks must stay silent)
for RF in refactor refactor2; do
if [ -f "$SRC/$RF.diff" ] && [ -s "$SRC/$RF.diff" ]; then
  git checkout -q -- src; 
  if git apply "$SRC/$RF.diff"; then
    cargo test --offline --lib >"$W/rsuite.log" 2>&1; RS=$?
    for TRY in 2 3; do
      if [ $RS -ne 0 ]; then cargo test --offline --lib >"$W/rsuite.log" 2>&1; RS=$?; fi
    done
    cargo test --offline --test seed_demo >"$W/rdemo.log" 2>&1; RD=$?
    ROK=0
    if [ $RD -eq 0 ] && { [ $RS -eq 0 ] || ! grep -q "FAILED" <(grep -v "t::tests::test_moments" "$W/rsuite.log" | grep "^test .* FAILED" | grep -v "^test result"); }; then ROK=1; fi
    echo "$RF: suite=$RS demo=$RD confirmed=$ROK"
    if [ $ROK -eq 1 ]; then
      E=/verif/equivalents/$ID; mkdir -p "$E"
      cp "$SRC/$RF.diff" "$E/$NAME-$RF.diff"
      python3 - "$ID" "$E/$NAME-$RF" <<'PY'
import json, sys
pid, base = sys.argv[1], sys.argv[2]
json.dump({'property': [pid], 'equivalent': True, 'patch': base.split('/')[-1] + '.diff',
           'desc': 'behaviour-preserving refactoring written by an independent sub-agent (confirmed: existing suite and the agent\'s demonstration pass with it applied alone)'},
          open(base + '.json', 'w'), indent=1)
PY
    fi
  else
    echo "$RF: PATCH DOES NOT APPLY"
  fi
fi
done
cd /; git -C /repo worktree remove --force "$W/wt"; rm -rf "$W"
exit $((1-OK))
