#!/usr/bin/env python3
"""Run the checks against the independently written breaking changes under /verif/seeded/<name>/ (patch.diff + meta.json).

usage: tools/seeded.py [--all] [--name TEXT] [PROP ...]   -> one line per seeded change, last line = JSON list of results
Each patch is applied to a scratch copy of /repo (never to /repo itself), the property's check is run with --repo, and
the change counts as `caught` when the check exits 1 with a VIOLATION line."""
import json, os, subprocess, sys, tempfile, shutil, glob

VERIF = os.path.dirname(os.path.dirname(os.path.abspath(__file__)))
REPO = os.environ.get('CVA_REPO', '/repo')


def run_one(d):
    meta = json.load(open(os.path.join(d, 'meta.json')))
    props = meta['property'] if isinstance(meta['property'], list) else [meta['property']]
    tmp = tempfile.mkdtemp(prefix='cva-seed-')
    try:
        scratch = os.path.join(tmp, 'repo')
        subprocess.run(['rsync', '-a', '--exclude', 'target', '--exclude', '.git', REPO + '/', scratch + '/'], check=True)
        r = subprocess.run(['patch', '-p1', '-s', '-i', os.path.join(d, 'patch.diff')], cwd=scratch, capture_output=True, text=True)
        if r.returncode != 0:
            return {'seeded': os.path.basename(d), 'status': 'patch-does-not-apply', 'detail': r.stdout[-200:] + r.stderr[-200:]}
        res = {'seeded': os.path.basename(d), 'property': props, 'status': 'missed', 'rules': []}
        env = dict(os.environ)
        env['CVA_EVIDENCE_DIR'] = os.path.join(tmp, 'evidence')
        env['CVA_NO_SELFTEST'] = '1'
        pdbargs = ['--repo', scratch]
        if ALL:
            props = ALL_PROPS
            pdbfile = os.path.join(tmp, 'pdb.json')
            d_ = subprocess.run([os.path.join(VERIF, 'cva_dump.sh'), scratch, pdbfile], capture_output=True, text=True, env=env)
            if not os.path.exists(pdbfile):
                return {'seeded': os.path.basename(d), 'status': 'does-not-build', 'detail': d_.stderr[-300:]}
            pdbargs = ['--repo', scratch, '--pdb', pdbfile]
            res['by'] = []
        for prop in props:
            c = subprocess.run([os.path.join(VERIF, 'check'), prop] + pdbargs, capture_output=True, text=True, env=env)
            if ALL and c.returncode == 1 and 'VIOLATION' in c.stdout:
                res['by'].append(prop)
            if c.returncode == 1 and 'VIOLATION' in c.stdout:
                res['status'] = 'caught'
                res['rules'] += [l.strip().split(' key=')[0].replace('rule=', '') + ' ' + l.strip().split(' key=')[1].split(' site=')[0]
                                 for l in c.stdout.splitlines() if l.strip().startswith('rule=')][:4]
            elif c.returncode == 2:
                res['status'] = 'does-not-build'
        return res
    finally:
        shutil.rmtree(tmp, ignore_errors=True)


ALL = False
ALL_PROPS = sorted(f[:-3].upper() for f in os.listdir(os.path.join(VERIF, 'cva', 'props')) if f.startswith('c') and f[1:3].isdigit() and f.endswith('.py'))


def main():
    global ALL
    args = sys.argv[1:]
    if '--all' in args:       # run every property's check against each change (which checks catch which changes)
        ALL = True
        args.remove('--all')
    name = None
    if '--name' in args:      # only the changes whose directory name contains the given text
        i = args.index('--name')
        name = args[i + 1]
        del args[i:i + 2]
    want = set(args)
    dirs = sorted(d for d in glob.glob(os.path.join(VERIF, 'seeded', '*')) if os.path.exists(os.path.join(d, 'meta.json')))
    sel = []
    for d in dirs:
        meta = json.load(open(os.path.join(d, 'meta.json')))
        props = meta['property'] if isinstance(meta['property'], list) else [meta['property']]
        if (not want or want & set(props)) and (name is None or name in os.path.basename(d)):
            sel.append(d)
    from concurrent.futures import ThreadPoolExecutor
    with ThreadPoolExecutor(max_workers=int(os.environ.get('CVA_JOBS', '6'))) as ex:
        results = list(ex.map(run_one, sel))
    for r in results:
        print('%-10s %s %s %s' % (r['status'], r['seeded'], r.get('by', ''), r.get('rules', r.get('detail', ''))))
    print(json.dumps(results))
    return 0


if __name__ == '__main__':
    sys.exit(main())
